"""Texts for MANIFEST.json (regenerate with tools/mkmanifest.py)."""

FENCE_NOTE = ("Trusts: x86-64 Linux page protection and the fault error code (write vs read), gcc -O1 build of the "
              "working tree with the repository's semantic flags, the harness's reference models (libc on private copies "
              "and 20-40 line C models). Accesses inside mapped memory that is no arena slot are not observed.")

ENGINES = [
    {"name": "uni", "path": "harness/uni.c", "serves_properties": ["C17", "C01", "C02", "C03", "C04", "C05"], "kind_free_text": "Unicode driver: fold-length monitor, string-level fold / normalise sweeps (every dmax, both operand orders, state after a failed call) and normalisation pipe server; reference in vlib/unicode_ref.py"},
    {"name": "oom", "path": "harness/oom.c", "serves_properties": ["C20"], "kind_free_text": "allocation-failure enumerator (--wrap malloc/calloc/realloc/free) with live-block table"},
    {"name": "cons", "path": "harness/cons.c", "serves_properties": ["C05", "C04", "C03", "C01", "C02"], "kind_free_text": "one documented constraint violation at a time for the printf/scanf, tokenizer, sort/search, fold/normalise, conversion and time/env/file exports; handler count/code, dest cleared"},
    {"name": "wfmt", "path": "harness/wfmt.c", "serves_properties": ["C01", "C02", "C03", "C04", "C05", "C08"], "kind_free_text": "wide buffer printf_s functions on valid formats around every dmax (libc swprintf differential) and scanf_s families on valid input"},
    {"name": "erase-solo", "path": "harness/erase/solo.c", "serves_properties": ["C18"], "kind_free_text": "single-call-site erase clients (secret derived in place) with stack/heap/static observers"},
    {"name": "mbconv", "path": "harness/mbconv.c", "serves_properties": ["C15", "C01", "C02", "C03", "C04", "C05", "C08"], "kind_free_text": "multibyte/wide conversion driver with libc reference"},
    {"name": "misc", "path": "harness/misc.c", "serves_properties": ["C01", "C02", "C03", "C04", "C05", "C06", "C08", "C12"], "kind_free_text": "time / error-string / environment / line-input / file exports under the fence with libc references"},
    {"name": "fmtw", "path": "harness/fmtw.c", "serves_properties": ["C09"], "kind_free_text": "wide printf_s + narrow/wide scanf_s drivers with %n sentinels"},
    {"name": "fmt", "path": "harness/fmt.c", "serves_properties": ["C11", "C09", "C01", "C02", "C03", "C04", "C05", "C08"], "kind_free_text": "narrow printf_s family driver: variadic dispatcher (vcall_gen.h), format grammar, libc differential"},
    {"name": "threads", "path": "harness/threads.c", "serves_properties": ["C12"], "kind_free_text": "thread stress + footprint monitor in common.h + TSan build"},
    {"name": "handlers", "path": "harness/handlers.c", "serves_properties": ["C13"], "kind_free_text": "handler-registration history executor with sequential model"},
    {"name": "erase", "path": "harness/erase/", "serves_properties": ["C18"], "kind_free_text": "victim/probe client matrix over optimisation levels and LTO"},
    {"name": "ct", "path": "harness/ct.c", "serves_properties": ["C19"], "kind_free_text": "timingsafe_* result differential + memcheck taint run"},
    {"name": "tok", "path": "harness/tok.c", "serves_properties": ["C14", "C01", "C02"], "kind_free_text": "tokenizer call-sequence driver with reference tokenizer"},
    {"name": "sortsearch", "path": "harness/sortsearch.c", "serves_properties": ["C16"], "kind_free_text": "qsort_s / bsearch_s driver with checking comparators"},
    {"name": "queries", "path": "harness/queries.c", "serves_properties": ["C01", "C02", "C05", "C10"],
     "kind_free_text": "exhaustive small-alphabet driver for the read-only query exports under the fence, with reference models"},
    {"name": "engine", "path": "harness/engine.c",
     "serves_properties": ["C01", "C02", "C03", "C04", "C05", "C06", "C07", "C08"],
     "kind_free_text": "table-driven call engine: guard-page arena + SIGSEGV fence + arena diff + counting probe handlers "
                       "+ reference models, supervised forked workers"},
]

META = {
 "C01": dict(technique="runtime monitoring: guard-page fence + arena snapshot diff around every real call",
             text="Every destination-writing export is executed on buffers flush against PROT_NONE pages (end- and begin-flush), "
                  "in the default and the no-slack build, object size known/unknown/larger; a write fault or any changed byte outside "
                  "dest[0..dmax) and the out-parameters is the refuting event. Held = no such event on the executions listed in the evidence.",
             note=FENCE_NOTE),
 "C02": dict(technique="runtime monitoring: exact-fit objects against PROT_NONE pages, read faults attributed by the fence",
             text="All readable operands are exact-fit objects ending (or starting) at an unmapped page, so any read beyond the declared "
                  "extent faults and is attributed to function/role/offset. Held = no read fault on the executions listed.",
             note=FENCE_NOTE),
 "C03": dict(technique="runtime monitoring: post-call scan of dirty (NUL-free) destinations",
             text="dest is pre-filled with non-zero garbage; after every return of a string producer (success or failure) a terminator "
                  "must exist within dmax. Both null-slack configurations.",
             note=FENCE_NOTE),
 "C04": dict(technique="runtime monitoring: before/after images of dest and src on every failing call",
             text="For every failing call with usable dest/dmax: dest[0]==0, no element holds something the call wrote, all-zero in the "
                  "default build for the late-failure classes, source unchanged.",
             note=FENCE_NOTE),
 "C05": dict(technique="runtime monitoring: counting probe handlers installed via the public API + documented-constraint classifier",
             text="Rules R1-R6: at most one handler invocation, handler code == returned code, no failure without handler, valid calls "
                  "report nothing, documented violations are reported, sizes above the RSIZE limit are rejected without touching "
                  "operands placed in unmapped memory.",
             note=FENCE_NOTE + " The classifier encodes the @pre/@retval text of each function; cases the text leaves open are "
                  "marked unsure and only the self-consistency rules R1-R3 apply."),
 "C06": dict(technique="runtime monitoring: differential oracle (libc / small C models on private copies) on every successful call",
             text="On success dest, returned pointer/count must equal the reference result; a result that does not fit must not be "
                  "reported as success.",
             note=FENCE_NOTE),
 "C07": dict(technique="runtime monitoring: every relative placement of src and dest inside one guarded arena, zone oracle from the pre-call image",
             text="For the 22 copy/concatenate/move exports, every offset of src relative to dest in [-(dmax+slen), +(dmax+slen)] for all small "
                  "dmax/slen/source lengths (and sizes across 0x20): disjoint operands must behave normally, written-meets-read must fail "
                  "with dest cleared, objects-overlap-only may do either, memmove family must equal a copy through a temporary; no fence event.",
             note=FENCE_NOTE),
 "C10": dict(technique="runtime monitoring: differential oracle over exhaustive small-alphabet operands for the 41 query exports",
             engine="queries",
             text="Every comparison/search/span/length/classification export is called on all strings over a small alphabet (both operands), "
                  "with dmax/slen at, above and below the string lengths, and its answer compared with a reference computed on bounded "
                  "private copies; operands must be unchanged. Exhaustive inside the stated bounds, nothing beyond them.",
             note=FENCE_NOTE),
 "C09": dict(technique="runtime monitoring: poisoned sentinels behind every %n-type directive of generated formats, all 28 printf_s/scanf_s entry points called for real",
             engine="fmtw",
             text="Each of the 8 narrow + 8 wide printf_s and 6 narrow + 6 wide scanf_s entry points is called (variadic and va_list forms, buffers, streams, stdin/stdout) with "
                  "formats containing an n conversion in every spelling; the argument at that position points to a poisoned sentinel. A changed sentinel, a non-failure return or "
                  "a missing handler invocation is the refuting event. Also run under ASan.",
             note=FENCE_NOTE),
 "C11": dict(technique="runtime monitoring: differential oracle against libc printf over a generated directive grammar, real variadic calls",
             engine="fmt",
             text="Every generated format is rendered by libc and by the 8 narrow entry points (buffers with dmax swept around the needed size, streams read back): "
                  "text, count, fit/no-fit behaviour, stream vs buffer, and independence from earlier calls are compared. The engine deviates from C printf in many "
                  "ways; those are listed as known findings keyed by root cause, so that a deviation outside the listed classes is still reported.",
             note=FENCE_NOTE + " Known-finding classes of the formatting engine are coarse (root cause x conversion / value class): a new defect inside an already listed class is masked."),
 "C12": dict(technique="runtime monitoring: per-call snapshot of the loaded library's .data/.bss (footprint), multi-thread stress with thread-tagged expectations, ThreadSanitizer",
             engine="threads",
             text="Footprint (schedule independent): no call may change the library's own writable static storage other than the handler registrations. Interference: results of "
                  "concurrent calls on private data equal their single-threaded values, with measured same-function overlap. TSan: no race with a library frame.",
             note="Footprint needs the shared build linked -z now (lazy binding would show as footprints); TSan only sees instrumented code."),
 "C13": dict(technique="runtime monitoring: recorded operation histories on real threads checked online against a sequential model of the registration state",
             engine="handlers",
             text="Which probe handler runs (identity, kind, code) after every violating call, and what each registration returns, is compared with a model (thread-local if set, "
                  "else latest global, else default). Complete for short histories on two threads, random for long histories with thread creation, plus a concurrent phase on "
                  "thread-local state. In addition every failing call of the 40 engine exports must reach the handler of its own kind (memory handler for mem*_s / wmem*_s, string "
                  "handler otherwise).",
             note="Probe handlers are installed through the public API only; trusts pthreads/TLS of the platform."),
 "C14": dict(technique="runtime monitoring: recorded call sequences checked against a reference tokenizer; continuation pointer poisoned into a guard page",
             engine="tok",
             text="Every call of a strtok_s/wcstok_s sequence is compared with a reference tokenizer (token start, length, terminator inside the buffer, only "
                  "delimiter positions overwritten, NULL forever after the first NULL, *ptr+*dmaxp never beyond dest+dmax, *dmaxp never grows); unterminated "
                  "inputs must end in an error without any access past dmax (buffer exact-fit between PROT_NONE pages).",
             note=FENCE_NOTE),
 "C17": dict(technique="runtime monitoring: differential oracle (Python unicodedata over a pipe) for wcsnorm_s; announced-vs-emitted length monitor for the fold functions under fence and ASan",
             engine="uni",
             text="The real wcsnorm_s is run on every assigned code point, Hangul, all composing pairs and random reordered mark sequences in NFD and NFC (minimal and ample dmax) and compared "
                  "with an independent implementation; results are re-normalised; iswfc's announcement is compared with what towfc_s/wcsfc_s emit for every 21-bit value and larger ones, with "
                  "destinations sized from the announcement flush against unmapped memory; wcsfc_s output is compared with the decomposed full case folding of str.casefold(); strings of "
                  "multi-character foldings (wcsfc_s) and of decomposable characters (wcsnorm_s NFD/NFC) are run with every dmax from 1 up: no access outside dest, success only "
                  "with the text an ample destination gets.",
             note="Independent oracle limited to UCD 14 (Python in this image)."),
 "C18": dict(technique="runtime monitoring: out-of-band probe of dead buffers in client programs built per optimisation level / LTO, with a plain-memset positive control",
             engine="erase",
             text="For each compiler configuration (gcc -O0..-O3/-Os, with and without -flto and static linking; clang in thorough) a client erases a buffer that is dead "
                  "afterwards; a -O0 probe then reads the recorded address from a non-overlapping frame and counts bytes that do not hold the fill value, and bytes "
                  "changed outside the range. A configuration in which the plain-memset control does not lose its store is reported inconclusive.",
             note="Observes the memory state after return for the compilers/flags in the matrix only."),
 "C19": dict(technique="runtime monitoring: valgrind memcheck secret-taint (regions marked undefined) + exhaustive result differential",
             engine="ct",
             text="Result: all byte pairs at the first difference for n 0..64 against memcmp. Data-independence: the executed code of the -O0 and -O2 builds is run under "
                  "memcheck with both regions undefined; any branch or address depending on them is reported and attributed per call; a naive early-exit compare must "
                  "raise reports in the same run (positive control), otherwise the verdict is inconclusive.",
             note="Trusts valgrind memcheck's definedness tracking; observes control-flow and address dependence only, for the two builds examined (gcc 12, x86-64)."),
 "C15": dict(technique="runtime monitoring: differential oracle against libc converters over exhaustive small strings, both locales, with fence",
             engine="mbconv",
             text="The six conversion exports are called on every short string over the four UTF-8 character widths and on invalid sequences at every position, with len/dmax below, at "
                  "and above the converted length, dest NULL, both locales; characters, count, *srcp, round trip, query-then-convert and state reuse are compared with libc.",
             note=FENCE_NOTE),
 "C20": dict(technique="runtime monitoring with fault injection: link-time malloc/realloc/free interposition failing the k-th allocation of each call, live-block accounting",
             engine="oom", category="fault_enumeration",
             text="For every scenario that reaches an allocation site, each allocation position is failed in turn: the process must survive (the fence turns a dereference of the "
                  "failed allocation into an attributed event), the call must report failure with dest cleared, and no block allocated during the call may be live at return "
                  "(also checked without injection).",
             note="Only allocation sites reached by the 20 scenarios are exercised; a floor requires at least 12 distinct sites to have been observed."),
 "C16": dict(technique="runtime monitoring: checking comparator + post-sort order/permutation scan + linear-search reference, array between guard pages, plain and ASan builds",
             engine="sortsearch",
             text="qsort_s on exact-fit arrays between PROT_NONE pages: result must be ordered and a permutation (multiset of whole elements), every comparator "
                  "argument inside the array on an element boundary with the caller's context; then bsearch_s for every key value: found iff present, result is a matching element.",
             note=FENCE_NOTE),
 "C08": dict(technique="runtime monitoring: slack scan behind the reference-computed terminator after success",
             text="Default build: dest[len..dmax) all zero after success of the slack-nulling functions, len from the reference model; "
                  "no-slack build: terminator present.",
             note=FENCE_NOTE),
}

NA = {}
