"""C17: independent reference for wcsnorm_s (Python unicodedata) and the pipe protocol to harness/uni.c --mode norm."""
import unicodedata, subprocess, random, sys

UCD = unicodedata.unidata_version


def assigned(cp):
    if 0xD800 <= cp <= 0xDFFF:
        return False
    return unicodedata.category(chr(cp)) not in ("Cn", "Cs")


def decomp_noreorder(s):
    """full canonical decomposition of every character, without canonical reordering (what wcsfc_s documents: 'technically only FCD')"""
    out = []
    def rec(ch):
        cp = ord(ch)
        if 0xAC00 <= cp < 0xD7A4:
            si = cp - 0xAC00; out.append(0x1100 + si // 588); out.append(0x1161 + (si % 588) // 28)
            if si % 28: out.append(0x11A7 + si % 28)
            return
        d = unicodedata.decomposition(ch)
        if d and not d.startswith("<"):
            for x in d.split(): rec(chr(int(x, 16)))
        else:
            out.append(cp)
    for ch in s: rec(ch)
    return out


def gen_cases(tier, seed):
    """yields (class, [code points]) restricted to code points assigned in this Python's UCD"""
    rnd = random.Random(seed)
    limit = 0x110000
    step = 1 if tier == "thorough" else 1
    # every assigned code point alone and followed by one combining mark (quick: BMP + every 3rd supplementary)
    for cp in range(1, limit):
        if not assigned(cp):
            continue
        if tier == "quick" and cp >= 0x10000 and cp % 3:
            continue
        yield ("single", [cp])
        if tier == "thorough" or cp < 0x3000:
            yield ("single+mark", [cp, 0x0301])
    # Hangul: all L x V, and LV x T
    for l in range(0x1100, 0x1113):
        for v in range(0x1161, 0x1176):
            yield ("hangul-LV", [l, v])
            for t in (range(0x11A8, 0x11C3) if tier == "thorough" else (0x11A8, 0x11B7, 0x11C2)):
                yield ("hangul-LVT", [l, v, t])
    # boundaries of the algorithmic ranges: the jamo just outside L / V / T (U+11A7 is an assigned vowel, not a trailing consonant)
    edge = [0x10FF, 0x1100, 0x1112, 0x1113, 0x115F, 0x1160, 0x1161, 0x1175, 0x1176, 0x11A7, 0x11A8, 0x11C2, 0x11C3, 0xABFF, 0xAC00, 0xAC1C, 0xD7A3, 0xD7A4, 0xD7B0]
    for a in edge:
        for b in edge:
            if assigned(a) and assigned(b):
                yield ("hangul-boundary", [a, b])
                for c3 in (0x11A7, 0x11A8, 0x11C2, 0x11C3, 0x1161):
                    yield ("hangul-boundary", [a, b, c3])
    for s in range(0xAC00, 0xD7A4, 1 if tier == "thorough" else 7):
        yield ("hangul-syllable", [s])
    # every (starter, mark) pair that has a primary composite, and the composition exclusions
    comps = []
    for cp in range(0xA0, 0x30000):
        if not assigned(cp):
            continue
        d = unicodedata.decomposition(chr(cp))
        if d and not d.startswith("<"):
            parts = [int(x, 16) for x in d.split()]
            if len(parts) == 2:
                comps.append(parts)
                yield ("canonical-pair", parts)
                yield ("canonical-pair+mark", parts + [0x0323])
    # a second character from a supplementary plane whose low 16 bits equal those of a composing mark must not compose
    seen = set()
    for a, b in comps:
        for plane in range(1, 17):
            c2 = b + plane * 0x10000
            if c2 < 0x110000 and assigned(c2) and (a, c2) not in seen:
                seen.add((a, c2)); yield ("supplementary-second-with-same-low-16-bits", [a, c2])
                if tier == "quick": break
    # random strings of starters and reordered combining marks of differing classes, incl. > 10 marks
    marks = [cp for cp in range(0x300, 0x370) if assigned(cp) and unicodedata.combining(chr(cp))] + [0x0591, 0x05B0, 0x064B, 0x0E48, 0x1DC0, 0x20D0, 0x302A]
    starters = [0x41, 0x61, 0x65, 0xC5, 0xE9, 0x1E0B, 0x3B1, 0x3A9, 0x1100, 0xAC00, 0x4E00, 0x1F600, 0x0F71, 0x0DD9, 0x0B47, 0x1D158]
    nrand = 200000 if tier == "thorough" else 20000
    for i in range(nrand):
        n = rnd.randint(1, 12)
        s = []
        for _ in range(n):
            s.append(rnd.choice(starters))
            k = rnd.choice((0, 0, 1, 2, 3, 12, 18)) if rnd.random() < 0.6 else 0
            for _ in range(k):
                s.append(rnd.choice(marks))
        s = s[:60]
        yield ("random", s)


def check(exe, tier, seed, nworkers=8):
    """runs the cases through nworkers driver processes; returns (violations, counters, samples)"""
    import threading
    cases = list(gen_cases(tier, seed))
    viol = {}
    counters = dict(norm_cases=0, driver_calls=0, classes={})
    samples = []
    lock = threading.Lock()

    def add(key, what, w):
        with lock:
            if key not in viol:
                viol[key] = dict(what=what, w=w, n=1)
            else:
                viol[key]["n"] += 1

    def work(wid):
        mine = cases[wid::nworkers]
        lines = []
        for i, (cls, cps) in enumerate(mine):
            s = "".join(chr(c) for c in cps)
            nfd = unicodedata.normalize("NFD", s); nfc = unicodedata.normalize("NFC", s)
            lines.append("%d %s;%d;%d\n" % (i, ",".join("%x" % c for c in cps), len(nfd), len(nfc)))
        p = subprocess.run([exe, "--mode", "norm", "--cfg", "plain"], input="".join(lines).encode(), stdout=subprocess.PIPE, stderr=subprocess.PIPE)
        out = p.stdout.decode(errors="replace").splitlines()
        ended = bool(out) and out[-1].startswith("END")
        if not ended:
            add("C17|driver-died|norm", "normalisation driver died (rc %s): %s" % (p.returncode, p.stderr.decode(errors="replace")[-300:]), {})
        for ln in out:
            if ln.startswith("END"):
                continue
            f = ln.split()
            if len(f) < 4:
                continue
            i, mode, kind = int(f[0]), int(f[1]), int(f[2])
            cls, cps = mine[i]
            s = "".join(chr(c) for c in cps)
            if mode == 2:
                with lock:
                    counters["driver_calls"] += 1; counters["fold_strings"] = counters.get("fold_strings", 0) + 1
                w = dict(harness="uni", input=" ".join("%04X" % c for c in cps), form="fold", replay="uni --mode norm")
                wantf = decomp_noreorder(s.casefold())
                short = ("+".join("%04X" % c for c in cps)) if len(cps) <= 2 else cls
                if f[3].startswith("FAULT"):
                    add("C17|fold-fence-fault|%s|%s" % (f[3], cls), "wcsfc_s on %s faults (%s at offset %s) with an ample destination" % (w["input"], f[3], f[4]), w); continue
                rc, ln_ = int(f[3]), int(f[4]); got = [int(x, 16) for x in f[5:]]
                if rc != 0:
                    add("C17|fold-valid-input-rejected|%s|rc=%d" % (short if len(cps) <= 1 else cls, rc), "wcsfc_s on %s returns %d with an ample destination" % (w["input"], rc), w)
                elif got != wantf:
                    add("C17|fold-differs-from-decomposed-full-case-folding|%s" % short, "wcsfc_s on %s gives %s, canonical decomposition of str.casefold() (UCD %s) gives %s" % (w["input"], " ".join("%04X" % c for c in got), UCD, " ".join("%04X" % c for c in wantf)), w)
                elif ln_ != len(got):
                    add("C17|fold-reported-length-wrong|%s" % cls, "wcsfc_s on %s stores %d characters but reports *lenp=%d" % (w["input"], len(got), ln_), w)
                continue
            form = "NFC" if mode else "NFD"
            want = [ord(c) for c in unicodedata.normalize(form, s)]
            dk = "minimal-dmax" if kind == 0 else "ample-dmax"
            w = dict(harness="uni", input=" ".join("%04X" % c for c in cps), form=form, dmax=dk, replay="uni --mode norm")
            with lock:
                counters["driver_calls"] += 1
                counters["classes"][cls] = counters["classes"].get(cls, 0) + 1
            if f[3].startswith("FAULT"):
                add("C17|fence-fault|%s|%s|%s|%s" % (f[3], form, dk, cls), "wcsnorm_s(%s) on %s faults (%s at offset %s) with %s" % (form, w["input"], f[3], f[4], dk), w)
                continue
            rc, ln_ = int(f[3]), int(f[4])
            got = [int(x, 16) for x in f[5:] if x != "!IDEM"]
            if rc != 0:
                if kind == 0 and rc == 406:
                    continue   # "no space" for a destination of exactly result+1 elements is an error report, not a wrong normalisation
                add("C17|valid-input-rejected|%s|%s|%s|rc=%d" % (form, dk, ("+".join("%04X" % c for c in cps)) if (len(cps) <= 3 and kind == 1) else cls, rc), "wcsnorm_s(%s) on %s returns %d with %s (expected length %d)" % (form, w["input"], rc, dk, len(want)), w)
                continue
            short = ("+".join("%04X" % c for c in cps)) if len(cps) <= 3 else cls
            if got != want:
                add("C17|differs-from-UAX15|%s|%s" % (form, short), "wcsnorm_s(%s) on %s gives %s, unicodedata (UCD %s) gives %s" % (form, w["input"], " ".join("%04X" % c for c in got), UCD, " ".join("%04X" % c for c in want)), w)
            elif ln_ != len(want):
                add("C17|reported-length-wrong|%s|%s" % (form, cls), "wcsnorm_s(%s) on %s stores %d characters but reports *lenp=%d" % (form, w["input"], len(want), ln_), w)
            if "!IDEM" in f:
                add("C17|not-idempotent|%s|%s" % (form, cls), "normalising the %s result of %s again changes it" % (form, w["input"]), w)
        with lock:
            counters["norm_cases"] += len(mine)
            if len(samples) < 6 and mine:
                cls, cps = mine[len(mine) // 2]
                samples.append(dict(cls=cls, input=" ".join("%04X" % c for c in cps), nfc=" ".join("%04X" % ord(c) for c in unicodedata.normalize("NFC", "".join(chr(c) for c in cps)))))

    ths = [threading.Thread(target=work, args=(i,)) for i in range(nworkers)]
    for t in ths: t.start()
    for t in ths: t.join()
    return viol, counters, samples
