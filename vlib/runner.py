"""Running harness workers, collecting their records, matching violations against the
known-findings file, writing evidence, printing the verdict lines."""
import json, os, subprocess, sys, time, hashlib, tempfile, shutil
from concurrent.futures import ThreadPoolExecutor

VERIF = os.path.dirname(os.path.dirname(os.path.abspath(__file__)))
KNOWN = os.path.join(VERIF, "known_findings.jsonl")
NCPU = min(16, os.cpu_count() or 4)


def seed():
    try:
        return int(os.environ.get("VERIF_SEED", "1"))
    except ValueError:
        return abs(hash(os.environ.get("VERIF_SEED"))) % (1 << 31)


class Results:
    """Accumulates records from many worker processes."""
    def __init__(self, prop):
        self.prop = prop
        self.viol = {}        # key -> dict(what, w, n)
        self.counters = {}
        self.distinct = set()
        self.samples = []
        self.incomplete = []  # workers that did not finish (inconclusive)
        self.notes = []
        self.evaluations = 0

    def add_violation(self, prop, key, what, w=None):
        if prop != self.prop:
            return
        v = self.viol.get(key)
        if v is None:
            self.viol[key] = dict(what=what, w=w or {}, n=1)
        else:
            v["n"] += 1

    def count(self, k, n=1):
        self.counters[k] = self.counters.get(k, 0) + n

    def feed(self, text, label):
        ended = False
        for line in text.splitlines():
            line = line.strip()
            if not line.startswith("{"):
                continue
            try:
                r = json.loads(line)
            except ValueError:
                continue
            t = r.get("t")
            if t == "v":
                self.add_violation(r["p"], r["key"], r.get("what", ""), r.get("w"))
            elif t == "c":
                self.count(r["k"], r["n"])
            elif t == "dh":
                self.distinct.update(r["h"])
            elif t == "d":
                self.distinct.add(r["k"])
            elif t == "s":
                if len(self.samples) < 12:
                    self.samples.append(r["s"])
            elif t == "harness_error":
                self.incomplete.append(label + ":harness_error:" + json.dumps(r))
            elif t == "end":
                ended = True
        if not ended:
            self.incomplete.append(label)
        return ended


def run_workers(cmds, results, timeout=3600, env=None, cwd=None, max_par=NCPU):
    """cmds: list of (label, argv).  Each worker writes records to stdout."""
    def one(item):
        label, argv = item
        t0 = time.time()
        try:
            p = subprocess.run(argv, stdout=subprocess.PIPE, stderr=subprocess.PIPE, timeout=timeout, env=env, cwd=cwd)
            return label, p.returncode, p.stdout.decode(errors="replace"), p.stderr.decode(errors="replace")[-60000:], time.time() - t0
        except subprocess.TimeoutExpired as e:
            return label, -999, (e.stdout or b"").decode(errors="replace"), "TIMEOUT", time.time() - t0
    with ThreadPoolExecutor(max_workers=max_par) as ex:
        outs = list(ex.map(one, cmds))
    for label, rc, out, err, dt in outs:
        ok = results.feed(out, label)
        if rc != 0 or not ok:
            results.notes.append("worker %s rc=%s ended=%s stderr=%s" % (label, rc, ok, err[-600:].replace("\n", " | ")))
            if label not in results.incomplete:
                results.incomplete.append(label)
    return outs


def load_known():
    known, fixed = {}, {}
    if os.path.exists(KNOWN):
        for line in open(KNOWN):
            line = line.strip()
            if not line or line.startswith("#"):
                continue
            r = json.loads(line)
            if r.get("status") == "known":
                known[r["key"]] = r
            elif r.get("status") == "fixed":
                fixed[r["key"]] = r
    return known, fixed


def finish(results, tier, level, rule, t0, extra_cov=None, assumptions=None, min_evals=1, floor_ok=True, floor_msg=""):
    """Print verdict lines, write evidence, return exit code."""
    prop = results.prop
    known, fixed = load_known()
    new, seen_known = [], []
    for key, v in sorted(results.viol.items()):
        if key in known:
            seen_known.append((key, known[key]))
        else:
            new.append((key, v))
    for key, k in seen_known:
        print("KNOWN-FINDING: property=%s %s [%s]" % (prop, k.get("what", ""), key))
    rc = 0
    if new:
        rdir = os.path.join(VERIF, "replays", prop)
        os.makedirs(rdir, exist_ok=True)
        for key, v in new:
            h = hashlib.sha1(key.encode()).hexdigest()[:12]
            path = os.path.join(rdir, h + ".json")
            with open(path, "w") as f:
                json.dump(dict(property=prop, key=key, what=v["what"], witness=v["w"], count=v["n"],
                               seed=seed(), tier=tier, was_fixed=key in fixed), f, indent=1)
            print("VIOLATION property=%s replay=%s" % (prop, path))
            print("  key: %s" % key)
            print("  what: %s" % v["what"])
        rc = 1
    evals = results.evaluations or results.counters.get("calls", 0)
    cov = dict(evaluations=int(evals), distinct_nontrivial=len(results.distinct), rule=rule,
               samples=results.samples[:8] or [{"note": "no sample recorded"}],
               counters=results.counters,
               known_findings_seen=[k for k, _ in seen_known],
               known_not_reproduced=sorted(k for k in known if k.startswith(prop + "|") and k not in results.viol),
               new_violation_keys=[k for k, _ in new],
               incomplete_workers=results.incomplete, notes=results.notes[:20])
    if extra_cov:
        cov.update(extra_cov)
    ev = dict(property_id=prop, tier=tier, seed=seed(), level=level, coverage=cov,
              assumptions=assumptions or [], wall_s=round(time.time() - t0, 2), violations=len(new))
    os.makedirs(os.path.join(VERIF, "evidence"), exist_ok=True)
    with open(os.path.join(VERIF, "evidence", prop + ".json"), "w") as f:
        json.dump(ev, f, indent=1)
    if rc == 0:
        if results.incomplete or evals < min_evals or len(results.distinct) < 2 or not floor_ok:
            print("INCONCLUSIVE property=%s: incomplete=%s evaluations=%d distinct=%d %s" %
                  (prop, results.incomplete, evals, len(results.distinct), floor_msg))
            for n in results.notes[:10]:
                print("  note:", n)
            return 2
        print("HELD property=%s tier=%s seed=%d evaluations=%d distinct_nontrivial=%d known_findings=%d wall=%.1fs" %
              (prop, tier, seed(), evals, len(results.distinct), len(seen_known), time.time() - t0))
    return rc
