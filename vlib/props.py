"""Per-property check definitions (which harness, which builds, which workload)."""
import os, sys, json, time, subprocess
from . import build, runner
from .runner import Results, run_workers, finish, seed, NCPU

VERIF = build.VERIF
CHECKS = {}

ENGINE_RULE = ("scenario = (function, sizes, contents, placement flush against PROT_NONE pages, object-size mode, build); "
               "sweep over the size/relation lattice + constraint combinations + seeded random extras; a case is counted as "
               "distinct non-trivial per (function, scenario class signature, outcome class) on which the property's oracle had "
               "something to decide")


def engine_jobs(prop, tier, cfgs, modes=(0,), nw=None, extra=()):
    jobs = []
    for cfg in cfgs:
        li = build.build_lib(cfg)
        exe = build.build_harness(li, "engine", ["engine.c"])
        n = nw or (NCPU if tier == "thorough" else 8)
        for mode in modes:
            for i in range(n):
                jobs.append(("engine/%s/m%d/%d" % (cfg, mode, i),
                             [exe, "--prop", prop, "--tier", tier, "--seed", str(seed()), "--cfg", cfg,
                              "--mode", str(mode), "--worker", "%d/%d" % (i, n)] + list(extra)))
    return jobs


def harness_jobs(harness, prop, tier, cfgs, nw=None, extra=(), sources=None):
    jobs = []
    for cfg in cfgs:
        li = build.build_lib(cfg)
        exe = build.build_harness(li, harness, sources or [harness + ".c"])
        n = nw or (NCPU if tier == "thorough" else 8)
        for i in range(n):
            jobs.append(("%s/%s/%d" % (harness, cfg, i),
                         [exe, "--prop", prop, "--tier", tier, "--seed", str(seed()), "--cfg", cfg,
                          "--worker", "%d/%d" % (i, n)] + list(extra)))
    return jobs


QUERIES_RULE = ("queries: every string over a small alphabet (lengths 0..3 quick / 0..4 thorough) for both operands x dmax/slen at, "
                "above and below the string length x object size known/unknown x placement, plus a wider alphabet for single-operand "
                "functions and all NULL/zero/over-limit combinations")


EXTRA_HARNESSES = {"C01": ["tok", "fmt", "misc", "cons", "wfmt"], "C02": ["tok", "fmt", "misc", "cons", "wfmt"], "C03": ["fmt", "misc", "cons", "wfmt"], "C04": ["fmt", "misc", "cons", "wfmt"],
                   "C05": ["fmt", "misc", "cons", "wfmt"], "C06": ["misc"], "C08": ["fmt", "misc", "wfmt"]}


SAN_ENV = dict(ASAN_OPTIONS="detect_leaks=0:abort_on_error=1:allow_user_segv_handler=1:handle_segv=0:handle_sigbus=0:print_summary=1:check_printf=0", UBSAN_OPTIONS="print_stacktrace=1")


def parse_sanitizer(stderr_text):
    """-> list of (access, key-part, text): ASan error blocks and UBSan 'runtime error' lines that name a library source file.
    access is 'W', 'R' or '?'."""
    import re
    out = {}
    for blk in re.split(r"(?==+\d+==ERROR: AddressSanitizer)", stderr_text):
        m = re.search(r"ERROR: AddressSanitizer: (\S+)", blk)
        if not m:
            continue
        kind = m.group(1)
        acc = "W" if re.search(r"\bWRITE of size", blk) else "R" if re.search(r"\bREAD of size", blk) else "?"
        frames = re.findall(r"#\d+ 0x[0-9a-f]+ in (\S+) (\S+)", blk)
        lib = [(f, loc) for f, loc in frames if "/repo/src/" in loc or "/src/" in loc and "/verif/" not in loc]
        if not lib:
            continue                      # a report without a library frame is the harness's own business (would be a harness error)
        fn = lib[0][0]
        out.setdefault((acc, "asan:%s|%s" % (kind, fn)), blk.strip()[:1500])
    for m in re.finditer(r"^(\S*/src/\S+?):(\d+):\d+: runtime error: (.*)$", stderr_text, re.M):
        f, line, msg = m.group(1), m.group(2), m.group(3)
        if "/verif/harness" in f:
            continue
        cls = re.sub(r"-?\b\d+\b", "N", msg)[:60]
        acc = "W" if "store to" in msg else "R" if ("load of" in msg or "index" in msg) else "?"
        out.setdefault((acc, "ubsan:%s|%s:%s" % (cls, os.path.basename(f), line)), m.group(0)[:400])
    return [(a, k, t) for (a, k), t in out.items()]


def sanitizer_pass(prop, tier, res, modes=(0, 1)):
    """The same workloads against an ASan+UBSan build of the library.  Only sanitizer reports count here (the monitors' own verdicts
    come from the plain builds): they see what the guard pages cannot, accesses that leave a stack, global or heap object of the
    library itself while staying in mapped memory."""
    tmp = Results("SAN")
    jobs = engine_jobs("SAN", tier, ["asan"], modes, nw=NCPU if tier == "thorough" else 6)
    jobs += harness_jobs("queries", "SAN", tier, ["asan"], nw=NCPU if tier == "thorough" else 4)
    jobs += mbconv_jobs("SAN", tier, ["asan"])
    for h in ("tok", "fmt", "misc", "cons", "wfmt"):
        jobs += harness_jobs(h, "SAN", tier, ["asan"], nw=1 if h in ("misc", "cons", "wfmt") else 4)
    outs = run_workers(jobs, tmp, env=dict(os.environ, **SAN_ENV))
    nrep = 0
    for label, rc, out, err, dt in outs:
        for acc, key, text in parse_sanitizer(err):
            nrep += 1
            want = "C01" if acc == "W" else "C02" if acc == "R" else prop
            if want == prop:
                res.add_violation(prop, "%s|sanitizer|%s" % (prop, key), "sanitizer report in a library frame (%s): %s" % (label, text.splitlines()[0][:200]),
                                  dict(harness=label, report=text[:1200], replay="ASAN build: " + label))
    res.count("sanitizer_build_calls", tmp.counters.get("calls", 0)); res.count("sanitizer_reports", nrep)
    for l in tmp.incomplete:
        res.incomplete.append("asan:" + l)
    res.notes += tmp.notes[:5]
    return tmp.counters.get("calls", 0)


def _engine_check(prop, cfgs, level_text, assumptions, modes=(0,), queries=False):
    def run(tier):
        t0 = time.time()
        res = Results(prop)
        jobs = engine_jobs(prop, tier, cfgs, modes)
        hs = ["engine"]
        if queries:
            jobs += harness_jobs("queries", prop, tier, ["plain"])
            hs.append("queries")
        if prop in ("C01", "C02", "C03", "C04", "C05", "C06", "C08"):
            jobs += mbconv_jobs(prop, tier, ["plain", "noslack"] if "noslack" in cfgs else ["plain"])
            hs.append("mbconv")
        for h in EXTRA_HARNESSES.get(prop, []):
            jobs += harness_jobs(h, prop, tier, ["plain", "noslack"] if (h in ("fmt", "misc", "cons", "wfmt") and "noslack" in cfgs) else ["plain"], nw=1 if h in ("misc", "cons", "wfmt") else 4)
            hs.append(h)
        if prop in ("C01", "C02", "C03", "C04", "C05"):      # string-level fold / normalise sweeps with every dmax and both operand orders (faults, state after a failed call, handler count)
            for cfg in (["plain", "noslack"] if (prop in ("C03", "C04") and "noslack" in cfgs) else ["plain"]):
                li = build.build_lib(cfg); uexe = build.build_harness(li, "uni", ["uni.c"])
                for mode in ("fcstr", "normstr"):
                    jobs.append(("uni/%s/%s" % (mode, cfg), [uexe, "--prop", prop, "--tier", tier, "--seed", str(seed()), "--cfg", cfg, "--mode", mode]))
            hs.append("uni")
        run_workers(jobs, res)
        builds = list(cfgs)
        if prop in ("C01", "C02"):
            sanitizer_pass(prop, tier, res)
            builds.append("asan")
        res.evaluations = res.counters.get("calls", 0)
        return finish(res, tier, "exploration", ENGINE_RULE + ("; " + QUERIES_RULE if queries else "") +
                      ("; the same workloads once more against an ASan+UBSan build of the library, where only sanitizer reports with a library frame count" if prop in ("C01", "C02") else ""), t0,
                      extra_cov=dict(builds=builds, harnesses=hs, explanation=level_text),
                      assumptions=assumptions, min_evals=1000)
    return run


FENCE_ASSUME = ["x86-64 Linux: page-granular PROT_NONE guards, REG_ERR bit 1 distinguishes write from read faults",
                "accesses that stay inside mapped memory and inside no arena slot are not observed",
                "library built from /repo working tree with -O1 plus the repository's semantic flags"]

CHECKS["C01"] = _engine_check("C01", ["plain", "noslack"], "fence + arena diff", FENCE_ASSUME, modes=(0, 1), queries=True)
CHECKS["C02"] = _engine_check("C02", ["plain"], "fence, exact-fit objects", FENCE_ASSUME, modes=(0, 1), queries=True)
CHECKS["C03"] = _engine_check("C03", ["plain", "noslack"], "dirty-dest terminator scan", FENCE_ASSUME)
CHECKS["C04"] = _engine_check("C04", ["plain", "noslack"], "before/after images on failure", FENCE_ASSUME, modes=(0, 1))
CHECKS["C05"] = _engine_check("C05", ["plain"], "counting probe handlers + constraint classifier", FENCE_ASSUME, modes=(0, 1), queries=True)
CHECKS["C06"] = _engine_check("C06", ["plain", "noslack"], "differential against reference models", FENCE_ASSUME, modes=(0, 1))
CHECKS["C07"] = _engine_check("C07", ["plain", "noslack"], "all relative placements inside one arena", FENCE_ASSUME, modes=(1,))
CHECKS["C08"] = _engine_check("C08", ["plain", "noslack"], "slack scan after success", FENCE_ASSUME, modes=(0, 1))


def _c10(tier):
    t0 = time.time()
    res = Results("C10")
    run_workers(harness_jobs("queries", "C10", tier, ["plain"]), res)
    res.evaluations = res.counters.get("c10_decided", 0)
    return finish(res, tier, "exploration", QUERIES_RULE + "; non-trivial = the function answered (success / not-found) and the reference "
                  "computed on bounded private copies had an expectation; distinct per (function, operand lengths, termination, bounds relation, outcome)",
                  t0, extra_cov=dict(builds=["plain"], harnesses=["queries"], calls=res.counters.get("calls", 0),
                                     exhaustive=True, exhaustive_scope="all strings over the stated alphabets and lengths for each function"),
                  assumptions=FENCE_ASSUME + ["reference models: 41 small C functions in harness/queries.c written from the doc comments / libc semantics"],
                  min_evals=1000)


CHECKS["C10"] = _c10


def parse_tsan(stderr_text):
    """returns list of (key, first_lines) for race reports that have a library frame"""
    import re
    out = {}
    for blk in stderr_text.split("=================="):
        if "ThreadSanitizer: data race" not in blk:
            continue
        frames = re.findall(r"#\d+ (\S+) (\S+)", blk)
        libframes = [f for f, loc in frames if "/repo/src/" in loc or "repo/src" in loc]
        if not libframes:
            continue
        m = re.search(r"Location is global '([^']+)'", blk)
        loc = m.group(1) if m else "?"
        top = sorted(set(libframes[:4]))[:3]
        key = "tsan-race|%s|%s" % (loc, "+".join(top))
        out.setdefault(key, blk.strip()[:1200])
    return out


FMT_RULE = ("formats: complete sweep of single integer directives (6 conversions x 8 length modifiers x 14 flag sets x 7 widths incl. '*' and negative '*' x 7 precisions "
            "incl. '.*' x 15 values; quick: every 23rd), single float directives (6 conversions x {plain, L} x 8 flag sets x 5 widths x 5 precisions x 24 values; quick: every 7th), "
            "%s/%c directives with exact-fit and unterminated %.Ns arguments, %ls (ASCII under C, non-ASCII under C.UTF-8, unterminated %.Nls arguments, precision 0), %lc, %b/%#b/%llb, %p, wide arguments the locale cannot represent (C printf fails: so must the library), seeded random formats of 1-4 directives with literal text and escaped percent signs (a third of them "
            "containing a %n-type directive in every spelling), each run through sprintf_s/snprintf_s/vsprintf_s/vsnprintf_s with dmax in {needed, needed-1, needed+2, 1, needed/2} and "
            "through fprintf_s/vfprintf_s/printf_s/vprintf_s on temporary files; history re-issue; distinct = (entry point, directive feature class, fit class, outcome)")


def _fmt_check(prop, what):
    def run(tier):
        t0 = time.time()
        res = Results(prop)
        jobs = harness_jobs("fmt", prop, tier, ["plain"], nw=NCPU if tier == "thorough" else 8)
        run_workers(jobs, res)
        res.evaluations = res.counters.get("c11_decided" if prop == "C11" else "c09_decided", 0)
        return finish(res, tier, "exploration", FMT_RULE, t0,
                      extra_cov=dict(builds=["plain"], harnesses=["fmt"], format_cases=res.counters.get("cases", 0), library_calls=res.counters.get("calls", 0),
                                     n_formats=res.counters.get("c09_n_formats", 0), stream_comparisons=res.counters.get("stream_comparisons", 0), explanation=what),
                      assumptions=FENCE_ASSUME + ["reference: glibc snprintf through the same variadic dispatcher; float oracle = requested layout + value within one unit of the last printed digit",
                                                   "text deviations of the shared formatting engine are keyed by root-cause class (see DESIGN.md C11), not by entry point"],
                      min_evals=500)
    return run


CHECKS["C11"] = _fmt_check("C11", "differential against C printf")


def _c09(tier):
    t0 = time.time()
    res = Results("C09")
    jobs = harness_jobs("fmt", "C09", tier, ["plain"], nw=NCPU if tier == "thorough" else 8)
    li = build.build_lib("plain"); exe = build.build_harness(li, "fmtw", ["fmtw.c"])
    for grp in ("n", "w"):
        jobs.append(("fmtw/" + grp, [exe, "--prop", "C09", "--tier", tier, "--seed", str(seed()), "--cfg", "plain", "--group", grp]))
    la = build.build_lib("asan"); exa = build.build_harness(la, "fmtw", ["fmtw.c"])
    for grp in ("n", "w"):
        jobs.append(("fmtw-asan/" + grp, [exa, "--prop", "C09", "--tier", tier, "--seed", str(seed()), "--cfg", "asan", "--group", grp]))
    run_workers(jobs, res, env=dict(os.environ, ASAN_OPTIONS="detect_leaks=0:abort_on_error=1"))
    res.evaluations = res.counters.get("c09_decided", 0)
    return finish(res, tier, "exploration",
                  "narrow printf_s family (8 entry points): seeded random formats of 1-4 directives with literal text and escaped percent signs, a third containing a %n-type "
                  "directive with random flags / width / '*' / precision / all 8 length modifiers; wide printf_s family (8) and narrow + wide scanf_s families (6 + 6): 27 spellings of "
                  "the n conversion (plain, each length modifier, width, each flag, precision, '*', positional, after one / two escaped percent signs) x 4 printf / 6 scanf contexts (scansets before and after the directive, a literal ']' behind it) x history (format buffer fresh, or first accepted with harmless content and then changed in place), on "
                  "buffers, temporary-file streams and redirected stdin/stdout; every %n target is a poisoned sentinel; distinct = (entry point, spelling class, context)", t0,
                  extra_cov=dict(builds=["plain", "asan"], harnesses=["fmt", "fmtw"], n_formats=res.counters.get("n_formats", 0) + res.counters.get("c09_n_formats", 0),
                                 entry_points=28, exhaustive=False),
                  assumptions=FENCE_ASSUME + ["glibc-specific spellings (I flag, positional %1$n) included; conversions only another libc would accept are not"], min_evals=500)


CHECKS["C09"] = _c09


def _c12(tier):
    t0 = time.time()
    res = Results("C12")
    # footprint monitor: every engine-style harness linked against the shared (-z now) build
    jobs = []
    for h, nw in (("engine", 8), ("queries", 4), ("tok", 2), ("sortsearch", 2), ("fmt", 4), ("misc", 1), ("cons", 1), ("wfmt", 1)):
        jobs += harness_jobs(h, "C12", tier, ["shared"], nw=nw)
    jobs += mbconv_jobs("C12", tier, ["shared"])
    run_workers(jobs, res)
    fp_checks = res.counters.get("footprint_checks", 0)
    # interference monitor
    li = build.build_lib("plain"); exe = build.build_harness(li, "threads", ["threads.c"])
    reps = 5 if tier == "thorough" else 2
    run_workers([("threads/plain/%d" % i, [exe, "--prop", "C12", "--tier", tier, "--seed", str(seed() * 8 + i), "--cfg", "plain"]) for i in range(reps)], res)
    # race detector (separate build)
    lt = build.build_lib("tsan"); ext = build.build_harness(lt, "threads", ["threads.c"])
    env = dict(os.environ, TSAN_OPTIONS="halt_on_error=0:report_signal_unsafe=0:history_size=4")
    outs = run_workers([("threads/tsan/%d" % i, [ext, "--prop", "C12", "--tier", "quick", "--seed", str(seed() * 8 + i), "--cfg", "tsan"]) for i in range(reps)], res, env=env)
    races = {}
    for label, rc, out, err, dt in outs:
        races.update(parse_tsan(err))
    # run_workers keeps only the stderr tail: re-read is not possible, so tsan stderr is parsed from the tail it returns
    for k, blk in races.items():
        res.add_violation("C12", "C12|" + k, "ThreadSanitizer reports a data race inside the library between calls on thread-private data: " + blk[:500].replace("\n", " | "),
                          dict(harness="threads", cfg="tsan", report=blk[:1200], replay="threads --cfg tsan --tier quick"))
    res.evaluations = fp_checks + res.counters.get("thread_calls", 0)
    floor_ok = fp_checks > 1000 and res.counters.get("calls_overlapping_same_function", 0) > 100
    return finish(res, tier, "exploration",
                  "footprint: every call made by the engine/queries/tok/sortsearch/fmt/misc/cons/wfmt/mbconv workloads against the shared build is bracketed by a byte snapshot of the library's .data/.bss "
                  "(handler variables excluded); interference: 8 and 16 threads x 25 call kinds (sorting incl. >256-byte elements, bsearch_s, asctime_s/ctime_s/gmtime_s/localtime_s, strerror_s, getenv_s, "
                  "%Lf, %f>1e9, %g/%e, wide printf success and no-space, vfprintf_s to private streams read back afterwards, wcsnorm_s, wcsfc_s, mbstowcs_s/wcstombs_s, copies, formatting, strtok_s/wcstok_s) "
                  "on thread-private data with thread-tagged expectations; race detector: same binary under -fsanitize=thread; "
                  "distinct = (function, whether same-function overlap was observed) + engine class signatures", t0,
                  extra_cov=dict(builds=["shared", "plain", "tsan"], harnesses=["engine", "queries", "tok", "sortsearch", "fmt", "misc", "cons", "wfmt", "mbconv", "threads"], footprint_checks=fp_checks,
                                 per_function_overlap={k.split("|", 1)[1]: v for k, v in res.counters.items() if k.startswith("thread_calls_overlapping_same_function|")},
                                 thread_calls=res.counters.get("thread_calls", 0), calls_overlapping_same_function=res.counters.get("calls_overlapping_same_function", 0),
                                 tsan_distinct_reports=len(races)),
                  assumptions=["static storage inside libc reached by the library (asctime, getenv, locale) is invisible to the footprint monitor and to TSan",
                               "interleavings are those the scheduler produced; overlap counts are reported, no enumeration"],
                  min_evals=1000, floor_ok=floor_ok, floor_msg="footprint checks %d, overlapping calls %d" % (fp_checks, res.counters.get("calls_overlapping_same_function", 0)))


CHECKS["C12"] = _c12


def _c13(tier):
    t0 = time.time()
    res = Results("C13")
    li = build.build_lib("plain"); exe = build.build_harness(li, "handlers", ["handlers.c"])
    jobs = [("handlers/%d" % i, [exe, "--prop", "C13", "--tier", tier, "--seed", str(seed() * 16 + i), "--cfg", "plain"]) for i in range(4 if tier == "thorough" else 1)]
    # the kind of handler every failing engine call reports to (mem*_s -> memory handler, everything else -> string handler)
    jobs += engine_jobs("C13", tier, ["plain"], (0,), nw=NCPU if tier == "thorough" else 6)
    run_workers(jobs, res)
    res.evaluations = res.counters.get("operations", 0) + res.counters.get("concurrent_ops", 0) + res.counters.get("failing_calls", 0)
    return finish(res, tier, "exploration",
                  "histories of registrations (set_/thrd_set_ x str/mem x {8 probes, NULL}), violating calls and thread creations executed by real threads and checked "
                  "step by step against a sequential model: (1) ALL histories of length 3 (quick) / 4 (thorough) over 14 operations x 2 threads, each closed by 4 probing "
                  "violations; (2) random histories of 5..60 operations over up to 7 threads created by workers; (3) 8 threads concurrently registering thread-local handlers and "
                  "violating; (4) every failing call of the 40 engine exports must reach the handler of its own kind (memory handler for mem*_s / wmem*_s, string handler otherwise); "
                  "distinct = (kind, thread-local state, global state, thread role, handler that ran) + engine class signatures", t0,
                  extra_cov=dict(builds=["plain"], harnesses=["handlers", "engine"], exhaustive=False, exhaustive_subspace="phase 1 short histories", engine_failing_calls=res.counters.get("failing_calls", 0),
                                 inheritance_by_created_threads=dict(observed=res.counters.get("inheritance_observed", 0), not_observed=res.counters.get("no_inheritance_observed", 0))),
                  assumptions=["global registrations are serialised by the driver (an unsynchronised global registration racing a violation is not excluded by the statement)",
                               "whether a created thread inherits its creator's thread-local handler is left open: both accepted, the observed behaviour is recorded"],
                  min_evals=1000)


CHECKS["C13"] = _c13


def _c14(tier):
    t0 = time.time()
    res = Results("C14")
    run_workers(harness_jobs("tok", "C14", tier, ["plain"], nw=8), res)
    res.evaluations = res.counters.get("calls", 0)
    return finish(res, tier, "exploration",
                  "call sequences: every string over {',', ';', 'a', 'b'} of length 0..5 (quick) / 0..7 (thorough) x dmax in {len+1, len+2, len+5, len, len-1} x "
                  "7 delimiter regimes (1 char, 2 chars, empty, 16 chars, 17 chars, alternating between calls, none present) x strtok_s/wcstok_s, each continued "
                  "until 4 NULLs (terminated) or 2 NULLs (error sequences); distinct = distinct (function, string, dmax variant, delimiter regime, object-size mode) sequences completed", t0,
                  extra_cov=dict(builds=["plain"], harnesses=["tok"], sequences=res.counters.get("sequences", 0), tokens_checked=res.counters.get("tokens_checked", 0),
                                 exhaustive=True, exhaustive_scope="strings over the 4-symbol alphabet up to the stated length (lengths 6-7: delimiter regimes 2,3,4,6 sampled 1/7)"),
                  assumptions=FENCE_ASSUME + ["reference tokenizer: 12 lines in harness/tok.c (ISO C strtok semantics per call with the delimiter set of that call)"], min_evals=1000)


CHECKS["C14"] = _c14


def build_erase(cfg):
    li = build.build_lib(cfg)
    cc, d, h = li["cc"], li["dir"], os.path.join(VERIF, "harness", "erase")
    import hashlib
    hh = hashlib.sha256(b"".join(open(os.path.join(h, f), "rb").read() for f in sorted(os.listdir(h)))).hexdigest()[:10]
    exe = os.path.join(d, "erase-" + hh)
    if os.path.exists(exe):
        return exe
    copt = [f for f in li["cflags"] if f.startswith("-O") or f.startswith("-f")]
    objs = []
    for src, flags in [("probe.c", ["-O0", "-fno-lto"]), ("main.c", ["-O0", "-fno-lto"]), ("victim.c", copt)]:
        o = os.path.join(d, "erase_%s_%d.o" % (src[:-2], os.getpid())); objs.append(o)
        r = subprocess.run([cc, "-c", "-w", "-g", "-D_GNU_SOURCE", "-I" + li["inc"], "-I" + build.REPO] + flags + ["-o", o, os.path.join(h, src)],
                           stdout=subprocess.PIPE, stderr=subprocess.STDOUT)
        if r.returncode:
            raise RuntimeError("erase client build failed: " + r.stdout.decode()[:3000])
    link = [cc] + [f for f in copt if f.startswith("-O") or f == "-flto"] + ["-o", exe + ".tmp"] + objs + [li["lib"]]
    if cc.startswith("clang") and "-flto" in copt:
        link.insert(1, "-fuse-ld=lld")
    r = subprocess.run(link, stdout=subprocess.PIPE, stderr=subprocess.STDOUT)
    if r.returncode:
        raise RuntimeError("erase client link failed: %s\n%s" % (" ".join(link), r.stdout.decode()[:3000]))
    os.rename(exe + ".tmp", exe)
    for o in objs:
        os.unlink(o)
    return exe


def build_solo(cfg, kind, storage):
    """one-victim, one-erase-call client (harness/erase/solo.c); the observer solo_main.c is compiled -O0 outside the LTO unit"""
    li = build.build_lib(cfg)
    cc, d, h = li["cc"], li["dir"], os.path.join(VERIF, "harness", "erase")
    import hashlib
    hh = hashlib.sha256(b"".join(open(os.path.join(h, f), "rb").read() for f in ("solo.c", "solo_main.c"))).hexdigest()[:10]
    exe = os.path.join(d, "solo-%s-%d-%d" % (hh, kind, storage))
    if os.path.exists(exe):
        return exe
    copt = [f for f in li["cflags"] if f.startswith("-O") or f.startswith("-f")]
    objs = []
    for src, flags in [("solo_main.c", ["-O0", "-fno-lto"]), ("solo.c", copt + ["-DKIND=%d" % kind, "-DSTORAGE=%d" % storage])]:
        o = os.path.join(d, "solo_%s_%d_%d_%d.o" % (src[:-2], kind, storage, os.getpid())); objs.append(o)
        r = subprocess.run([cc, "-c", "-w", "-g", "-D_GNU_SOURCE", "-I" + li["inc"], "-I" + build.REPO] + flags + ["-o", o, os.path.join(h, src)],
                           stdout=subprocess.PIPE, stderr=subprocess.STDOUT)
        if r.returncode:
            raise RuntimeError("solo client build failed: " + r.stdout.decode()[:3000])
    link = [cc] + [f for f in copt if f.startswith("-O") or f == "-flto"] + ["-o", exe + ".tmp"] + objs + [li["lib"]]
    if cc.startswith("clang") and "-flto" in copt:
        link.insert(1, "-fuse-ld=lld")
    r = subprocess.run(link, stdout=subprocess.PIPE, stderr=subprocess.STDOUT)
    if r.returncode:
        raise RuntimeError("solo client link failed: %s\n%s" % (" ".join(link), r.stdout.decode()[:3000]))
    os.rename(exe + ".tmp", exe)
    for o in objs:
        os.unlink(o)
    return exe


def _c18(tier):
    t0 = time.time()
    res = Results("C18")
    cfgs = ["repo", "O2", "O3", "O2lto", "O3lto"] if tier == "quick" else ["repo", "O0", "O1", "O2", "O3", "Os", "O0lto", "O2lto", "O3lto", "clangO2", "clangO3", "clangO2lto"]
    from concurrent.futures import ThreadPoolExecutor
    def one(cfg):
        try:
            exe = build_erase(cfg)
            p = subprocess.run([exe, tier], stdout=subprocess.PIPE, stderr=subprocess.PIPE, timeout=900)
            return cfg, p.returncode, p.stdout.decode(errors="replace"), p.stderr.decode(errors="replace")[-500:]
        except Exception as e:   # a configuration that cannot be built is inconclusive, not a verdict
            return cfg, -1, "", repr(e)[:600]
    with ThreadPoolExecutor(max_workers=8) as ex:
        outs = list(ex.map(one, cfgs))
    # solo clients: one victim, one erase call per program, secret derived in place (address never escapes before the call)
    solo_cfgs = ["O2lto", "O3lto"] if tier == "quick" else ["O1", "O2", "O3", "O0lto", "O2lto", "O3lto", "clangO2", "clangO2lto"]
    solo_st = [0, 1, 3] if tier == "quick" else [0, 1, 2, 3]
    def solo_one(a):
        cfg, k, st = a
        try:
            exe = build_solo(cfg, k, st)
            p = subprocess.run([exe, tier], stdout=subprocess.PIPE, stderr=subprocess.PIPE, timeout=900)
            return cfg, k, st, p.returncode, p.stdout.decode(errors="replace"), p.stderr.decode(errors="replace")[-500:]
        except Exception as e:
            return cfg, k, st, -1, "", repr(e)[:600]
    for cfg in solo_cfgs:
        build.build_lib(cfg)        # once per configuration, before the parallel client builds
    with ThreadPoolExecutor(max_workers=NCPU) as ex:
        souts = list(ex.map(solo_one, [(c, k, st) for c in solo_cfgs for k in range(8) for st in solo_st]))
    matrix, floor_ok, floor_msg = {}, True, []
    solo_matrix = {}
    for cfg, k, st, rc, out, err in souts:
        ended = False
        for line in out.splitlines():
            if not line.startswith("{"):
                continue
            r = json.loads(line)
            if r.get("t") == "end":
                ended = True
            if r.get("t") != "solo":
                continue
            res.count("cases", r["cases"]); res.count("solo_cases", r["cases"]); res.count("solo_windows_searched", r["windows"])
            solo_matrix.setdefault(cfg, {})[r["fn"] + "/" + r["storage"]] = dict(cases=r["cases"], windows=r["windows"], found=r["windows_found"])
            res.distinct.add("solo|%s|%s|%s" % (cfg, r["fn"], r["storage"]))
            if r["fn"].startswith("CONTROL"):
                if r["storage"].startswith("stack") and cfg not in ("O0lto",) and r["windows_found"] == 0:
                    floor_ok = False; floor_msg.append("solo positive control (plain memset, %s) left no secret window in %s: observer not sensitive there" % (r["storage"], cfg))
                continue
            w = dict(harness="erase/solo", cfg=cfg, fn=r["fn"], storage=r["storage"], first_n=r["first_n"], first_off=r["first_off"], replay="solo %s kind=%d storage=%d %s" % (cfg, k, st, tier))
            if r["windows_found"]:
                res.add_violation("C18", "C18|%s|secret-survives-in-single-call-site-client|%s|%s" % (r["fn"], r["storage"], cfg),
                                  "%s returned EOK but %d of %d 8-byte windows of the secret are still in the dead %s buffer (%d of %d cases; client with one erase call, secret derived in place, build %s; first n=%d off=%d)" %
                                  (r["fn"], r["windows_found"], r["windows"], r["storage"], r["bad_cases"], r["cases"], cfg, r["first_n"], r["first_off"]), w)
            if r["rc_bad"]:
                res.add_violation("C18", "C18|%s|erase-call-failed|%s|%s" % (r["fn"], r["storage"], cfg), "%s did not return EOK in %d cases of the solo client" % (r["fn"], r["rc_bad"]), w)
        if rc != 0 or not ended:
            res.incomplete.append("solo/%s/%d/%d" % (cfg, k, st)); res.notes.append("solo %s %d %d rc=%s %s" % (cfg, k, st, rc, err))
    for cfg, rc, out, err in outs:
        ended = False
        for line in out.splitlines():
            if not line.startswith("{"):
                continue
            r = json.loads(line)
            if r.get("t") == "end":
                ended = True
            if r.get("t") != "erase":
                continue
            res.count("cases", r["cases"]); res.count("bytes_inspected", r["bytes"])
            ctrl = r["fn"].startswith("CONTROL")
            matrix.setdefault(cfg, {})[r["fn"] + "/" + r["storage"]] = dict(cases=r["cases"], surviving=r["surviving"], outside=r["outside_changed"])
            res.distinct.add("%s|%s|%s" % (cfg, r["fn"], r["storage"]))
            if ctrl:
                if r["storage"] == "stack" and cfg not in ("repo", "O0", "O0lto") and r["surviving"] == 0:
                    floor_ok = False; floor_msg.append("positive control (plain memset, stack) left no surviving byte in %s: probe not sensitive there" % cfg)
                continue
            w = dict(harness="erase", cfg=cfg, fn=r["fn"], storage=r["storage"], first_n=r["first_n"], first_off=r["first_off"], first_val=r["first_val"],
                     first_surviving=r["first_surviving"], replay="erase %s %s" % (cfg, tier))
            if r["surviving"]:
                res.add_violation("C18", "C18|%s|secret-bytes-survive|%s|%s" % (r["fn"], r["storage"], cfg),
                                  "%s (%s buffer, build %s): %d of %d addressed bytes do not hold the fill value after the call returned (first: n=%d off=%d val=%#x, %d bytes)" %
                                  (r["fn"], r["storage"], cfg, r["surviving"], r["bytes"], r["first_n"], r["first_off"], r["first_val"], r["first_surviving"]), w)
            if r["outside_changed"]:
                res.add_violation("C18", "C18|%s|bytes-outside-range-changed|%s|%s" % (r["fn"], r["storage"], cfg),
                                  "%s (%s buffer, build %s): %d bytes outside the n addressed bytes changed" % (r["fn"], r["storage"], cfg, r["outside_changed"]), w)
        if rc != 0 or not ended:
            res.incomplete.append("erase/" + cfg); res.notes.append("erase %s rc=%s %s" % (cfg, rc, err))
    res.evaluations = res.counters.get("cases", 0)
    res.samples = [dict(cfg=c, results={k: v for k, v in list(m.items())[:4]}) for c, m in list(matrix.items())[:3]]
    return finish(res, tier, "exploration",
                  "client programs: {memset_s, memzero_s, memset16_s, memset32_s, memzero16_s, memzero32_s, strzero_s} x {stack, heap-then-free, static} buffer that is dead "
                  "after the call x n in {1..40,63,64,65,255,4096} (quick: 19 sizes) x alignment 0..7 x fill {0,0xFF,0x5A}, client and library both built per configuration; "
                  "the dead buffer is read out-of-band after the frame is gone; plus solo clients (one victim with one erase call per program, secret derived in place so that the address "
                  "never escapes before the call, storage stack / heap-then-free / static / constant-size stack key) whose dead stack region, recycled heap block or static array is "
                  "searched for 8-byte windows of the secret; distinct = (configuration, function, storage) cells with all their cases", t0,
                  extra_cov=dict(configurations=cfgs, matrix=matrix, solo_configurations=solo_cfgs, solo_matrix=solo_matrix, harnesses=["erase", "erase/solo"],
                                 positive_control="plain memset in the same client must leave secret bytes on the stack at -O1 and above"),
                  assumptions=["gcc 12 / clang 14 on x86-64 with the flags listed; other compilers or flags are not covered",
                               "copies of the secret in registers or spill slots are outside the statement"],
                  min_evals=100, floor_ok=floor_ok, floor_msg="; ".join(floor_msg))


CHECKS["C18"] = _c18


def _c19(tier):
    t0 = time.time()
    res = Results("C19")
    jobs = []
    for cfg in ["repo", "O2"]:
        li = build.build_lib(cfg)
        exe = build.build_harness(li, "ct", ["ct.c"])
        base = ["--prop", "C19", "--tier", tier, "--seed", str(seed()), "--cfg", cfg]
        jobs.append(("ct/result/" + cfg, [exe, "--mode", "result"] + base))
        jobs.append(("ct/taint/" + cfg, ["valgrind", "-q", "--error-limit=no", "--log-file=/dev/null", exe, "--mode", "taint"] + base))
    run_workers(jobs, res)
    ctrl, fired = res.counters.get("control_calls", 0), res.counters.get("control_fired", 0)
    res.evaluations = res.counters.get("calls", 0) + res.counters.get("tainted_calls", 0)
    floor_ok = ctrl > 0 and fired == ctrl and res.counters.get("tainted_calls", 0) > 0
    return finish(res, tier, "exploration",
                  "result: n 0..64 x first-difference position {0, n/2, n-1} x all 256x256 byte pairs there (thorough; every third pair in quick) vs memcmp; "
                  "taint: under valgrind memcheck both regions marked undefined for n 1..24 (quick) / 1..64 (thorough) x 6 content classes x {repo default -O0, -O2} builds, "
                  "memcheck error-count delta per call; distinct = (mode, function, n, class/sign)", t0,
                  extra_cov=dict(builds=["repo", "O2"], harnesses=["ct"], tainted_calls=res.counters.get("tainted_calls", 0),
                                 positive_control=dict(naive_early_exit_calls=ctrl, raised_memcheck_errors=fired)),
                  assumptions=["valgrind memcheck flags conditional jumps/moves and address formation on undefined data; other data-dependent timing is not observed",
                               "gcc 12 code generation for the two builds examined"],
                  min_evals=1000, floor_ok=floor_ok, floor_msg="positive control fired %d/%d" % (fired, ctrl))


CHECKS["C19"] = _c19


def mbconv_jobs(prop, tier, cfgs):
    jobs = []
    for cfg in cfgs:
        li = build.build_lib(cfg); exe = build.build_harness(li, "mbconv", ["mbconv.c"])
        for loc in ("C.UTF-8", "C"):
            n = 4 if tier == "thorough" else 2
            for i in range(n):
                jobs.append(("mbconv/%s/%s/%d" % (cfg, loc, i), [exe, "--prop", prop, "--tier", tier, "--seed", str(seed()), "--cfg", cfg, "--locale", loc, "--worker", "%d/%d" % (i, n)]))
    return jobs


def _c15(tier):
    t0 = time.time()
    res = Results("C15")
    run_workers(mbconv_jobs("C15", tier, ["plain"]), res)
    res.evaluations = res.counters.get("c15_decided", 0)
    return finish(res, tier, "exploration",
                  "all strings of 0..3 (quick) / 0..4 (thorough) characters over the four UTF-8 widths {U+41, U+E9, U+20AC, U+1F600} x invalid sequences (lone continuation, truncated lead, "
                  "overlong, surrogate, > U+10FFFF; wide: surrogate and > 10FFFF values) at every position x len in {n-1, n, n+1, large} x dmax in {k, k+1, k+3, 1} x dest NULL (size query) x "
                  "object size known/unknown x locales C.UTF-8 and C, for the six exports; reference = libc with the same len on private buffers; round trips wcs->mbs->wcs; "
                  "query-then-convert; state reuse after errors; distinct = (function, validity class, len class, dmax class, length, outcome)", t0,
                  extra_cov=dict(builds=["plain"], harnesses=["mbconv"], locales=["C.UTF-8", "C"], invalid_input_cases=res.counters.get("invalid_input_cases", 0),
                                 round_trips=res.counters.get("round_trips", 0), exhaustive=True, exhaustive_scope="strings over the 4 code points up to the stated length"),
                  assumptions=FENCE_ASSUME + ["glibc's converters are the reference; no stateful encoding is installed in this image"], min_evals=1000)


CHECKS["C15"] = _c15


def _c20(tier):
    t0 = time.time()
    res = Results("C20")
    li = build.build_lib("plain")
    exe = build.build_harness(li, "oom", ["oom.c"], extra_ldflags=["-Wl,--wrap=malloc,--wrap=calloc,--wrap=realloc,--wrap=free"])
    run_workers([("oom", [exe, "--prop", "C20", "--tier", tier, "--seed", str(seed()), "--cfg", "plain"])], res)
    res.evaluations = res.counters.get("runs", 0)
    sites = res.counters.get("allocation_sites_seen", 0)
    res.samples = [dict(scenarios=res.counters.get("scenarios", 0), allocations_observed=res.counters.get("allocations_observed", 0),
                        fail_positions_enumerated=res.counters.get("fail_positions_enumerated", 0), allocation_sites_seen=sites)]
    return finish(res, tier, "fault_enumeration",
                  "28 scenarios chosen to reach every allocation site of the library (%ls copy incl. its conversion-error exit, the four long-double / hex-float directive copies, the heap copy of a long-double rendering of 64 or more characters, the "
                  "no-space probes of the four wide buffer printf functions with dmax >= 512, normalisation scratch for len+2 >= 128, combining-sequence growth in reorder and compose, "
                  "the two fold buffers of wcsicmp_s and of wcsnatcmp_s incl. their error exits); for each scenario a learning run counts the allocations A made during the call, then every position "
                  "k = 1..A is failed in turn (complete per scenario); distinct = (scenario, fail position, outcome)", t0,
                  extra_cov=dict(builds=["plain"], harnesses=["oom"], exhaustive=True, exhaustive_scope="all allocation positions of each listed scenario",
                                 allocation_sites_seen=sites),
                  assumptions=["allocations are intercepted with --wrap on a static link: only allocations made by the library's own code are counted and failed; allocations libc makes "
                               "on the library's behalf (vswprintf, stdio) are outside the statement", "sites are identified by the return address of the wrapped call"],
                  min_evals=30, floor_ok=sites >= 12, floor_msg="allocation sites seen: %d (expected >= 12)" % sites)


CHECKS["C20"] = _c20


def _c17(tier):
    from . import unicode_ref
    t0 = time.time()
    res = Results("C17")
    # fold: iswfc vs towfc_s / wcsfc_s for every value, plain (fence) and ASan (table indexing)
    jobs = []
    for cfg in ("plain", "asan"):
        li = build.build_lib(cfg); exe = build.build_harness(li, "uni", ["uni.c"])
        jobs.append(("uni/fold/" + cfg, [exe, "--prop", "C17", "--tier", tier, "--seed", str(seed()), "--cfg", cfg, "--mode", "fold"]))
        jobs.append(("uni/fcstr/" + cfg, [exe, "--prop", "C17", "--tier", tier, "--seed", str(seed()), "--cfg", cfg, "--mode", "fcstr"]))
        jobs.append(("uni/normstr/" + cfg, [exe, "--prop", "C17", "--tier", tier, "--seed", str(seed()), "--cfg", cfg, "--mode", "normstr"]))
    run_workers(jobs, res, env=dict(os.environ, ASAN_OPTIONS="detect_leaks=0:abort_on_error=1"))
    # norm: differential against Python unicodedata through a pipe
    li = build.build_lib("plain"); exe = build.build_harness(li, "uni", ["uni.c"])
    viol, counters, samples = unicode_ref.check(exe, tier, seed(), nworkers=NCPU)
    for k, v in viol.items():
        res.viol[k] = v
    res.count("norm_inputs", counters["norm_cases"]); res.count("norm_driver_calls", counters["driver_calls"])
    for cls, n in counters["classes"].items():
        res.distinct.add("norm|" + cls); res.count("norm_class_" + cls, n)
    res.samples = samples
    res.evaluations = counters["driver_calls"] + res.counters.get("fold_cases", 0) + res.counters.get("fold_string_cases", 0) + res.counters.get("norm_string_cases", 0)
    return finish(res, tier, "exploration",
                  "normalisation: every code point assigned in Python's UCD %s alone (quick: BMP + every third supplementary) and followed by U+0301, every Hangul LxV and LVxT jamo sequence and "
                  "precomposed syllable, every canonical two-part decomposition (starter, mark) and with an extra mark, seeded random strings of <= 12 starters with 0-18 reordered combining "
                  "marks of differing classes, each in NFD and NFC with dmax = result+1 and ample, result compared with unicodedata.normalize and re-normalised (idempotence); folding: iswfc "
                  "vs characters emitted by towfc_s / wcsfc_s for every value 0..0x1103FF and 4096 larger 32-bit values, dest sized from the announcement, plain (fence) and ASan builds" % unicode_ref.UCD, t0,
                  extra_cov=dict(builds=["plain", "asan"], harnesses=["uni"], python_ucd=unicode_ref.UCD, exhaustive=(tier == "thorough"),
                                 exhaustive_scope="single code points of UCD %s and all fold inputs" % unicode_ref.UCD),
                  assumptions=["reference = CPython unicodedata (UCD %s); the library's tables are Unicode 15: code points first assigned after %s are only covered by the fold / idempotence "
                               "checks (normalisation stability makes the comparison sound for the older ones)" % (unicode_ref.UCD, unicode_ref.UCD),
                               "NFKD/NFKC are not built (--enable-norm-compat off)"], min_evals=10000)


CHECKS["C17"] = _c17


def _c16(tier):
    t0 = time.time()
    res = Results("C16")
    jobs = harness_jobs("sortsearch", "C16", tier, ["plain", "asan"], nw=8)
    run_workers(jobs, res)
    res.evaluations = res.counters.get("sorts", 0) + res.counters.get("searches", 0)
    return finish(res, tier, "exploration",
                  "arrays: all key patterns over {0,1,2} for nmemb 0..7 (quick) / 0..9 (thorough) x element sizes {1,4,8,300}; sorted / reversed / "
                  "all-equal / organ-pipe / random arrays with key ranges 1,2,n/2,n,2^31 over element sizes 1..300 (incl. >256, non powers of two), "
                  "nmemb up to 5000; after each sort a bsearch_s for every key value in [min-1, max+1]; distinct = (nmemb class or exact nmemb<=9, "
                  "size class, pattern, placement, object-size mode, outcome)", t0,
                  extra_cov=dict(builds=["plain", "asan"], harnesses=["sortsearch"], comparator_calls=res.counters.get("comparator_calls", 0),
                                 exhaustive=False, exhaustive_subspace="key patterns over {0,1,2} up to the stated nmemb"),
                  assumptions=FENCE_ASSUME + ["ASan build adds red-zone detection for the sort's own stack/static scratch"], min_evals=1000)


CHECKS["C16"] = _c16


def replay(path):
    r = json.load(open(path))
    w = r.get("witness", {})
    cmd = w.get("replay")
    if not cmd:
        print("no replay command in", path); return 2
    parts = cmd.split()
    harness, args = parts[0], parts[1:]
    cfg = w.get("cfg", "plain")
    li = build.build_lib(cfg)
    src = {"engine": ["engine.c"]}.get(harness, [harness + ".c"])
    exe = build.build_harness(li, harness, src)
    p = subprocess.run([exe, "--prop", r["property"], "--verbose"] + args, stdout=subprocess.PIPE, stderr=subprocess.STDOUT)
    out = p.stdout.decode(errors="replace")
    print(out[-6000:])
    hit = any(('"t":"v"' in l and r["key"] in l) for l in out.splitlines())
    print("REPLAY %s: %s" % (path, "violation reproduced" if hit else "not reproduced"))
    return 1 if hit else 0
