#!/bin/bash
# sweep.sh <tier> <seed> [Cxx ...]: run the checks and print verdict lines plus every unlisted key
T=${1:-quick}; S=${2:-1}; shift 2
P=${@:-C01 C02 C03 C04 C05 C06 C07 C08 C09 C10 C11 C12 C13 C14 C15 C16 C17 C18 C19 C20}
for p in $P; do
  VERIF_SEED=$S ./check $p --tier $T > /tmp/sweep_$p.out 2>&1; rc=$?
  echo "$p rc=$rc $(grep -E '^(HELD|INCONCLUSIVE)' /tmp/sweep_$p.out | cut -c1-160)"
  grep -E "^  key:" /tmp/sweep_$p.out | sort | uniq -c | head -40
done
