#!/bin/bash
# refresh.sh: regenerate every evidence file from the unchanged tree (quick tier, seed 1) - run before committing after mutant experiments
cd /verif
[ -n "$(git -C /repo status --porcelain --untracked-files=no)" ] && { echo "/repo working tree is modified: refusing"; exit 1; }
for p in C01 C02 C03 C04 C05 C06 C07 C08 C09 C10 C11 C12 C13 C14 C15 C16 C17 C18 C19 C20; do
  VERIF_SEED=1 ./check $p > /tmp/refresh_$p.out 2>&1; rc=$?
  echo "$p rc=$rc $(grep -E '^(HELD|INCONCLUSIVE|VIOLATION)' /tmp/refresh_$p.out | head -1 | cut -c1-140)"
done
