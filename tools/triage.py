#!/usr/bin/env python3
"""dev helper: run a harness with --prop ALL on given configs and group violation keys"""
import sys, os, json, collections
sys.path.insert(0, '/verif')
from vlib import build, runner
from vlib.props import *
def main():
    harness = sys.argv[1]; tier = sys.argv[2]; cfgs = sys.argv[3].split(','); extra = sys.argv[4:]
    allv = {}
    for cfg in cfgs:
        li = build.build_lib(cfg); exe = build.build_harness(li, harness, [harness + '.c'])
        n = 16
        jobs = [("%s/%d" % (cfg, i), [exe, "--prop", "ALL", "--tier", tier, "--seed", str(runner.seed()), "--cfg", cfg, "--worker", "%d/%d" % (i, n)] + extra) for i in range(n)]
        class R(runner.Results):
            def add_violation(self, prop, key, what, w=None):
                allv.setdefault(key, dict(what=what, w=w, n=0))['n'] += 1
        res = R("ALL"); runner.run_workers(jobs, res)
        print(cfg, "incomplete:", res.incomplete, res.notes[:3], {k: v for k, v in res.counters.items()})
    groups = collections.OrderedDict()
    for k in sorted(allv):
        g = '|'.join(k.split('|')[:3])
        groups.setdefault(g, []).append(k)
    for g, ks in groups.items():
        print("%-70s keys=%d  e.g. %s" % (g, len(ks), allv[ks[0]]['what'][:230]))
    json.dump(allv, open('/tmp/triage.json', 'w'), indent=1)
    print(len(allv), "keys,", len(groups), "groups")
main()
