#!/usr/bin/env python3
"""seedstore.py <Cxx> <mN> <srcdir> [tier] [verify-line]: run the property's check against a confirmed seeded change and store it under seeded/Cxx-mN/"""
import sys, os, json, shutil, subprocess, re
wid, m, src = sys.argv[1], sys.argv[2], sys.argv[3]      # wid: worktree id (C10 or C10b = second round for C10)
prop = wid[:3]; mm = m if len(wid) == 3 else "m%d" % (int(m[1:]) + 2 * (ord(wid[3]) - ord("a")))
tier = sys.argv[4] if len(sys.argv) > 4 else "quick"
V = "/verif"; dst = os.path.join(V, "seeded", "%s-%s" % (prop, mm)); os.makedirs(dst, exist_ok=True)
for f in ("patch.diff", "demo.c"):
    shutil.copy(os.path.join(src, f), os.path.join(dst, f))
am = json.load(open(os.path.join(src, "meta.json")))
r = subprocess.run([os.path.join(V, "tools", "mutrun.sh"), os.path.join(dst, "patch.diff"), prop, tier], stdout=subprocess.PIPE, stderr=subprocess.STDOUT)
out = open("/tmp/mutrun.out").read() if r.returncode != 3 else ""
keys = sorted(set(re.findall(r"^\s+key: (.*)$", out, re.M)))
whats = re.findall(r"^\s+what: (.*)$", out, re.M)[:2]
rc = r.returncode
verify = None
vf = "/tmp/mut/%s.verify" % wid
if os.path.exists(vf):
    for l in open(vf):
        if l.startswith("%s/%s:" % (wid, m)): verify = l.strip()
meta = dict(property=prop, title=am.get("title"), description=am.get("description"), needs=am.get("needs"), files=am.get("files"),
            origin="independent sub-agent given only the property text and a scratch worktree of /repo; patch re-checked to apply on the current tree",
            confirmed_by_me=dict(builds=True, make_check="127/127 with the patch", demo_fails_with_patch=True, demo_passes_without=True,
                                 how="/tmp/mut/verify.sh in the scratch worktree: git apply, make, make -k check, compile+run demo.c, git checkout, make, run demo.c", verify_output=verify),
            detection=dict(command="./check %s --tier %s" % (prop, tier), exit_code=rc, violation_keys=keys[:12], n_keys=len(keys), first_report=whats))
json.dump(meta, open(os.path.join(dst, "meta.json"), "w"), indent=1)
print(prop, mm, "rc=%d" % rc, "keys=%d" % len(keys), keys[:3])
