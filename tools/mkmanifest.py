#!/usr/bin/env python3
"""regenerates the checks / not_applicable sections of MANIFEST.json from vlib/manifest_meta.py"""
import json, sys
sys.path.insert(0, '/verif')
from vlib import manifest_meta as mm
m = json.load(open('/verif/MANIFEST.json'))
m['checks'] = []
for pid in sorted(mm.META):
    e = mm.META[pid]
    m['checks'].append(dict(property_id=pid, quick_cmd="./check %s --tier quick" % pid, thorough_cmd="./check %s --tier thorough" % pid,
        evidence_file="evidence/%s.json" % pid, replay_cmd_template="./check replay {path}", engine=e.get('engine', 'engine'),
        level_claimed=dict(category=e.get('category', 'exploration'), text=e['text'], design_ref=e.get('design_ref', 'DESIGN.md section 5 ' + pid)),
        level_note=e['note'], technique=e['technique']))
props = [json.loads(l)['id'] for l in open('/verif/properties.jsonl')]
m['not_applicable'] = [dict(property_id=p, reason=mm.NA.get(p, "check not built yet in this session; not claimed")) for p in props if p not in mm.META]
m['engines'] = mm.ENGINES
json.dump(m, open('/verif/MANIFEST.json', 'w'), indent=1)
print("checks:", [c['property_id'] for c in m['checks']], "n/a:", [x['property_id'] for x in m['not_applicable']])
