#!/bin/bash
# mutrun.sh <patch.diff> <Cxx> [tier]: apply a seeded change to /repo, run the check, undo it.
# The change is undone from a trap (also on INT/TERM/HUP), and the script refuses to start on a dirty /repo:
# a seeded change left behind in the working tree is indistinguishable from a defect of the repository.
P=$1; C=$2; T=${3:-quick}
cd /repo || exit 3
[ -z "$(git status --porcelain --untracked-files=no)" ] || { echo "REPO-NOT-CLEAN: refusing to apply $P"; exit 3; }
git apply --check $P 2>/dev/null || { echo "PATCH-DOES-NOT-APPLY $P"; exit 3; }
undo() { git -C /repo apply -R $P 2>/dev/null || git -C /repo checkout -- .; }
trap 'undo; trap - EXIT; exit 130' INT TERM HUP
trap undo EXIT
git apply $P
cd /verif && ./check $C --tier $T > /tmp/mutrun.out 2>&1; rc=$?
echo "check $C ($T) rc=$rc: $(grep -c '^VIOLATION' /tmp/mutrun.out) violation lines; $(grep -m2 'what:' /tmp/mutrun.out | cut -c1-220)"
exit $rc
