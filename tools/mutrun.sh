#!/bin/bash
# mutrun.sh <patch.diff> <Cxx> [tier]: apply a seeded change to /repo, run the check, undo it
P=$1; C=$2; T=${3:-quick}
cd /repo && git apply --check $P 2>/dev/null || { echo "PATCH-DOES-NOT-APPLY $P"; exit 3; }
git apply $P
cd /verif && ./check $C --tier $T > /tmp/mutrun.out 2>&1; rc=$?
git -C /repo checkout -- .
echo "check $C ($T) rc=$rc: $(grep -c '^VIOLATION' /tmp/mutrun.out) violation lines; $(grep -m2 'what:' /tmp/mutrun.out | cut -c1-220)"
exit $rc
