#!/bin/bash
# mutall.sh [tier]: run every stored seeded change against its property's check; prints one line each (rc=1 expected)
T=${1:-quick}
for d in /verif/seeded/C*; do
  n=$(basename $d); p=${n%%-*}
  out=$(/verif/tools/mutrun.sh $d/patch.diff $p $T 2>&1 | head -1 | cut -c1-90)
  echo "$n: $out"
done
