#!/usr/bin/env python3
"""dev helper: adopt reviewed groups of violation keys (from tools/triage.py output files) as known findings.
usage: adopt.py <key-prefix> <what text>   (reads /tmp/triage*.json)"""
import sys, json, glob
prefix, what = sys.argv[1], sys.argv[2]
keys = {}
for f in glob.glob('/tmp/triage*.json'):
    for k, v in json.load(open(f)).items():
        if k.startswith(prefix): keys[k] = v
have = set()
for l in open('/verif/known_findings.jsonl'):
    l = l.strip()
    if l: have.add(json.loads(l)['key'])
n = 0
with open('/verif/known_findings.jsonl', 'a') as f:
    for k in sorted(keys):
        if k in have: continue
        f.write(json.dumps(dict(status='known', property=k.split('|')[0], key=k, what=what, example=keys[k]['what'][:300])) + '\n'); n += 1
print("adopted", n, "keys for", prefix)
