#!/usr/bin/env python3
"""reconcile.py <Cxx> <commit|DELETE> [note]: run the thorough check with seeds 1..3 and turn every known-findings entry of the
property that none of the runs reproduced into a "fixed" entry for <commit> (or delete it: corrected false alarm)."""
import sys, json, subprocess, os
V = os.path.dirname(os.path.dirname(os.path.abspath(__file__)))
prop, commit = sys.argv[1], sys.argv[2]; note = sys.argv[3] if len(sys.argv) > 3 else None
sets = []
for s in ("1", "2", "3"):
    r = subprocess.run([os.path.join(V, "check"), prop, "--tier", "thorough"], env=dict(os.environ, VERIF_SEED=s), stdout=subprocess.PIPE, stderr=subprocess.STDOUT)
    if r.returncode != 0: print("check exited", r.returncode, "with seed", s, ": not reconciling"); print(r.stdout.decode()[-1500:]); sys.exit(1)
    sets.append(set(json.load(open(os.path.join(V, "evidence", prop + ".json")))["coverage"].get("known_not_reproduced", [])))
nr = sets[0] & sets[1] & sets[2]
out = []; n = 0
for l in open(os.path.join(V, "known_findings.jsonl")):
    if not l.strip(): continue
    d = json.loads(l)
    if d["status"] == "known" and d["key"] in nr:
        n += 1
        if commit == "DELETE": continue
        d["status"] = "fixed"; d["commit"] = commit
        if note: d["what"] = d["what"] + " [" + note + "]"
    out.append(d)
open(os.path.join(V, "known_findings.jsonl"), "w").write("".join(json.dumps(d) + "\n" for d in out))
print(prop, "reconciled", n, "entries ->", commit)
