#!/usr/bin/env python3
"""coverage.py [tier] [Cxx ...]: line coverage of the library sources under the registered workloads (development aid).
Builds the plain/noslack/shared configurations with --coverage into a scratch directory, runs the checks, runs gcov per
configuration and prints the union: per-file coverage, functions never entered, and (with -v) the uncovered lines.
Writes /verif/evidence/_coverage.json."""
import os, sys, subprocess, glob, json, re, tempfile, shutil
V = os.path.dirname(os.path.dirname(os.path.abspath(__file__)))
args = [a for a in sys.argv[1:] if a != "-v"]; verbose = "-v" in sys.argv
tier = args[0] if args else "quick"
props = args[1:] or ["C%02d" % i for i in range(1, 21)]
cov = tempfile.mkdtemp(prefix="vcov-")
env = dict(os.environ, VERIF_COV=cov)
for p in props:
    r = subprocess.run([os.path.join(V, "check"), p, "--tier", tier], env=env, stdout=subprocess.PIPE, stderr=subprocess.STDOUT)
    print(p, r.returncode, (r.stdout.decode().strip().splitlines() or [""])[-1][:150], flush=True)
lines = {}      # file -> {lineno: executed?}
src = {}
funcs = {}
for gdir in glob.glob(os.path.join(cov, "gcno-*")):
    config = os.path.basename(gdir)[5:]
    dds = set(r for r, _, fs in os.walk(cov) if os.path.basename(r).startswith(config + "-") and any(f.endswith(".gcda") for f in fs))
    for dd in dds:
        for g in glob.glob(os.path.join(gdir, "*.gcno")):
            shutil.copy(g, dd)
        r = subprocess.run(["gcov", "-f", "-o", ".", *[os.path.basename(g) for g in glob.glob(os.path.join(dd, "*.gcno"))]], cwd=dd, stdout=subprocess.PIPE, stderr=subprocess.DEVNULL)
        cur = None
        for ln in r.stdout.decode(errors="replace").splitlines():
            m = re.match(r"Function '(.*)'", ln)
            if m: cur = m.group(1); continue
            m = re.match(r"Lines executed:([\d.]+)% of (\d+)", ln)
            if m and cur: funcs[cur] = max(funcs.get(cur, 0.0), float(m.group(1))); cur = None
        for gc in glob.glob(os.path.join(dd, "*.c.gcov")) + glob.glob(os.path.join(dd, "*.h.gcov")):
            name = None
            for ln in open(gc, errors="replace"):
                f = ln.split(":", 2)
                if len(f) < 3: continue
                cnt, no = f[0].strip(), f[1].strip()
                if no == "0":
                    if f[2].startswith("Source:"): name = f[2][7:].strip()
                    continue
                if not name or "/src/" not in name: continue
                key = name.split("/src/")[-1]
                if cnt == "-": continue
                ex = not cnt.startswith("#") and not cnt.startswith("=")
                d = lines.setdefault(key, {}); d[int(no)] = d.get(int(no), False) or ex
                src.setdefault(key, {})[int(no)] = f[2].rstrip("\n")
tot = sum(len(d) for d in lines.values()); hit = sum(sum(1 for v in d.values() if v) for d in lines.values())
print("library lines with code: %d, executed under the workloads: %d (%.1f%%)" % (tot, hit, 100.0 * hit / max(tot, 1)))
per = {f: (100.0 * sum(1 for v in d.values() if v) / len(d), len(d)) for f, d in lines.items()}
for f, (p, n) in sorted(per.items(), key=lambda x: x[1][0]):
    if p < 90: print("  %5.1f%% of %4d  %s" % (p, n, f))
never = sorted(f for f, p in funcs.items() if p == 0)
print("functions never entered:", " ".join(never))
if verbose:
    for f, d in sorted(lines.items()):
        miss = sorted(n for n, v in d.items() if not v)
        if miss:
            print("== %s: %d uncovered" % (f, len(miss)))
            for n in miss: print("   %5d %s" % (n, src[f][n][:140]))
json.dump(dict(tier=tier, props=props, total_lines=tot, executed=hit, executed_pct=round(100.0 * hit / max(tot, 1), 1),
               files={f: dict(pct=round(p, 1), lines=n) for f, (p, n) in per.items()}, never_entered=never),
          open(os.path.join(V, "evidence", "_coverage.json"), "w"), indent=1)
if not os.environ.get("KEEPCOV"): shutil.rmtree(cov, ignore_errors=True)
else: print("kept", cov)
