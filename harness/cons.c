/* cons: one documented runtime-constraint violation at a time for the exports the table-driven engine does not drive
 * (formatted output and input, tokenizers, sort/search, folding/normalisation, conversions, time/error/environment/file).
 * Monitors (per call, under the fence with counting probe handlers):
 *   C05  the call indicates failure, the handler is invoked exactly once, the code it receives is the code returned
 *        (or left in errno for pointer/EOF returning functions), and it is the documented one for the uniform classes
 *        (null pointer ESNULLP, zero size ESZEROL, above the limit ESLEMAX, above the known object size EOVERFLOW)
 *   C04/C03  where dest and dmax themselves are usable, dest[0] == 0 afterwards and nothing the call wrote is left
 *   C01/C02  no access outside the objects (dest exact-fit in front of a PROT_NONE page)                              */
#include "common.h"
#include <wchar.h>
#include <time.h>
#include <stdarg.h>
#include <stdbool.h>
#include <locale.h>
#include <sys/wait.h>

static const char *g_cfg = "plain"; static int g_noslack;
static int want(const char *p) { return !strcmp(g_prop, "ALL") || !strcmp(g_prop, p); }
static unsigned long long n_calls, n_c05, n_c04; static char g_wit[700];
typedef enum { RT_ERRNO, RT_NEG, RT_PTR, RT_EOF, RT_NEGANY, RT_PTRANY } rkind;
static const char *RKN[] = {"errno_t", "negative-errno", "null+errno", "EOF+errno", "negative", "null"};

static void vio(const char *prop, const char *fn, const char *rule, const char *viol, const char *obs) {
    char key[260], what[520];
    if (!want(prop)) return;
    snprintf(key, sizeof key, "%s|%s|%s|%s", fn, rule, viol, (prop[2] == '3' || prop[2] == '4' || prop[2] == '1') ? g_cfg : "-");
    snprintf(what, sizeof what, "%s (%s): %s: %s", fn, viol, rule, obs);
    char eo[300] = ""; for (const char *p = obs; *p && strlen(eo) < 290; p++) if (*p != '"' && *p != '\\' && (unsigned char)*p >= 32 && (unsigned char)*p < 127) sb_add(eo, sizeof eo, "%c", *p);
    snprintf(g_wit, sizeof g_wit, "{\"harness\":\"cons\",\"cfg\":\"%s\",\"fn\":\"%s\",\"violated\":\"%s\",\"obs\":\"%s\",\"replay\":\"cons --cfg %s\"}", g_cfg, fn, viol, eo, g_cfg);
    report(prop, key, what, g_wit);
}

static long g_r; static int g_errno_after;
static void begin(const char *fn) { probes_reset(); errno = 0; g_r = -99999; g_cur_fn = fn; g_shm->in_call = 1; }
/* dest/dbytes: the destination when dest and dmax themselves are usable (else NULL/0); ew element width; fillpat: the byte pattern dest was filled with */
static void finish(const char *fn, const char *viol, rkind rk, int expect, void *dest, size_t dbytes, int ew) {
    char obs[300]; long r = g_r; int hc = g_h.count;
    g_shm->in_call = 0; g_errno_after = errno; n_calls++;
    {   char b[200]; snprintf(b, sizeof b, "%s;%s;%ld;%d;%d", fn, viol, r > 1000 || r < -1000 ? 7777 : r, hc, hc ? (int)g_h.code[0] : 0); distinct_add(hash_str(b)); }
    if (g_fence.faulted) {
        snprintf(obs, sizeof obs, "%s fault at %p (dest %p, %zu bytes)", g_fence.is_write ? "WRITE" : "READ", (void *)g_fence.addr, dest, dbytes);
        if (!strncmp(viol, "dmax-above-limit", 16) || !strncmp(viol, "nmemb-above", 11) || !strncmp(viol, "size-above", 10) || !strncmp(viol, "n-above-limit", 13))
            vio("C05", fn, "R6-operand-accessed-although-size-above-limit", viol, obs);      /* the declared size is not truthful here: not a C01/C02 question */
        else vio(g_fence.is_write ? "C01" : "C02", fn, g_fence.is_write ? "cons-W-fault" : "cons-R-fault", viol, obs);
        return;
    }
    n_c05++;
    int failed = rk == RT_ERRNO ? r != 0 : rk == RT_NEG || rk == RT_NEGANY ? r < 0 : rk == RT_PTR || rk == RT_PTRANY ? r == 0 : r == EOF;
    long code = rk == RT_ERRNO ? r : rk == RT_NEG ? -r : rk == RT_NEGANY || rk == RT_PTRANY ? 0 : g_errno_after;
    if (!failed) { snprintf(obs, sizeof obs, "returned %ld (%s convention): no failure indicated; handler calls %d", r, RKN[rk], hc); vio("C05", fn, "R0-violation-not-reported", viol, obs); }
    else if (hc == 0) { snprintf(obs, sizeof obs, "returned %ld / errno %d without invoking the handler", r, g_errno_after); vio("C05", fn, "R3-failure-returned-without-handler", viol, obs); }
    else if (hc > 1) { snprintf(obs, sizeof obs, "%d handler invocations (%s, %s), returned %ld", hc, errname(g_h.code[0]), errname(g_h.code[1]), r); vio("C05", fn, "R1-handler-invoked-more-than-once", viol, obs); }
    else if (rk != RT_NEGANY && rk != RT_PTRANY && g_h.code[0] != code) { snprintf(obs, sizeof obs, "handler got %s, the call %s %s (%ld)", errname(g_h.code[0]), rk == RT_PTR || rk == RT_EOF ? "left errno" : "returned", errname(code), code); vio("C05", fn, "R2-handler-code-differs-from-returned-code", viol, obs); }
    else if (expect && g_h.code[0] != expect) { snprintf(obs, sizeof obs, "reported %s, documented %s", errname(g_h.code[0]), errname(expect)); vio("C05", fn, "R5-reported-code-differs-from-documented", viol, obs); }
    if (dest && dbytes && failed) {
        n_c04++;
        uint8_t *d = dest; int nz = 0; for (int i = 0; i < ew; i++) if (d[i]) nz = 1;
        if (nz) { snprintf(obs, sizeof obs, "failed call (returned %ld) leaves dest[0] = %#x", r, ew == 1 ? d[0] : *(uint32_t *)d); vio("C04", fn, "dest[0]-not-zero", viol, obs); vio("C03", fn, "unterminated-dest", viol, obs); }
        else for (size_t i = (size_t)ew; i < dbytes; i++) if (d[i] && d[i] != (uint8_t)(0x61 + i % 23)) { snprintf(obs, sizeof obs, "failed call leaves byte %#x at dest+%zu", d[i], i); vio("C04", fn, g_noslack ? "partial-result-left-no-slack-build" : "partial-result-left", viol, obs); break; }
        for (int i = 0; i < 32; i++) if (d[-32 + i] != CANARY) { vio("C01", fn, "write-before-dest", viol, "canary in front of dest changed"); break; }
    }
}
static void *mkdest(size_t bytes) { uint8_t *d = place_end(0, bytes); memset(d - 32, CANARY, 32); for (size_t i = 0; i < bytes; i++) d[i] = (uint8_t)(0x61 + i % 23); return d; }
#define CASE(FN, VIOL, RK, EXPECT, DEST, DBYTES, EW, CALL) do { begin(FN); FENCED(g_r = (long)(CALL)); finish(FN, VIOL, RK, EXPECT, DEST, DBYTES, EW); } while (0)
#define PCASE(FN, VIOL, EXPECT, DEST, DBYTES, EW, CALL) do { begin(FN); FENCED(g_r = (long)(intptr_t)(CALL)); finish(FN, VIOL, RT_PTR, EXPECT, DEST, DBYTES, EW); } while (0)
#define PACASE(FN, VIOL, CALL) do { begin(FN); FENCED(g_r = (long)(intptr_t)(CALL)); finish(FN, VIOL, RT_PTRANY, 0, NULL, 0, 1); } while (0)

/* va_list entry points */
static int v_vsprintf_s(char *d, rsize_t n, size_t bos, const char *f, ...) { va_list ap; va_start(ap, f); int r = _vsprintf_s_chk(d, n, bos, f, ap); va_end(ap); return r; }
static int v_vsnprintf_s(char *d, rsize_t n, size_t bos, const char *f, ...) { va_list ap; va_start(ap, f); int r = _vsnprintf_s_chk(d, n, bos, f, ap); va_end(ap); return r; }
static int v_vfprintf_s(FILE *s, const char *f, ...) { va_list ap; va_start(ap, f); int r = vfprintf_s(s, f, ap); va_end(ap); return r; }
static int v_vprintf_s(const char *f, ...) { va_list ap; va_start(ap, f); int r = vprintf_s(f, ap); va_end(ap); return r; }
static int v_vswprintf_s(wchar_t *d, rsize_t n, size_t bos, const wchar_t *f, ...) { va_list ap; va_start(ap, f); int r = _vswprintf_s_chk(d, n, bos, f, ap); va_end(ap); return r; }
static int v_vsnwprintf_s(wchar_t *d, rsize_t n, size_t bos, const wchar_t *f, ...) { va_list ap; va_start(ap, f); int r = _vsnwprintf_s_chk(d, n, bos, f, ap); va_end(ap); return r; }
static int v_vfwprintf_s(FILE *s, const wchar_t *f, ...) { va_list ap; va_start(ap, f); int r = vfwprintf_s(s, f, ap); va_end(ap); return r; }
static int v_vwprintf_s(const wchar_t *f, ...) { va_list ap; va_start(ap, f); int r = vwprintf_s(f, ap); va_end(ap); return r; }
static int v_vsscanf_s(const char *b, const char *f, ...) { va_list ap; va_start(ap, f); int r = vsscanf_s(b, f, ap); va_end(ap); return r; }
static int v_vfscanf_s(FILE *s, const char *f, ...) { va_list ap; va_start(ap, f); int r = vfscanf_s(s, f, ap); va_end(ap); return r; }
static int v_vscanf_s(const char *f, ...) { va_list ap; va_start(ap, f); int r = vscanf_s(f, ap); va_end(ap); return r; }
static int v_vswscanf_s(const wchar_t *b, const wchar_t *f, ...) { va_list ap; va_start(ap, f); int r = vswscanf_s(b, f, ap); va_end(ap); return r; }
static int v_vfwscanf_s(FILE *s, const wchar_t *f, ...) { va_list ap; va_start(ap, f); int r = vfwscanf_s(s, f, ap); va_end(ap); return r; }
static int v_vwscanf_s(const wchar_t *f, ...) { va_list ap; va_start(ap, f); int r = vwscanf_s(f, ap); va_end(ap); return r; }

static FILE *g_nstream, *g_wstream, *g_rstream, *g_wrstream;
static int cmp_int(const void *a, const void *b, void *ctx) { (void)ctx; return *(const int *)a - *(const int *)b; }
static int cmp_int2(const void *a, const void *b) { return *(const int *)a - *(const int *)b; }

static void narrow_printf(void) {
    for (int bos = 0; bos < 2; bos++) {
#define NP(FN, CALLF) do { \
        char *d = mkdest(16); size_t B = bos ? 16 : BOS_UNKNOWN; char *nul = NULL; const char *nf = NULL; (void)nul; (void)nf; \
        CASE(FN, bos ? "dest-null|bos" : "dest-null", RT_NEG, ESNULLP, NULL, 0, 1, CALLF(nul, 16, BOS_UNKNOWN, "x")); \
        d = mkdest(16); CASE(FN, bos ? "fmt-null|bos" : "fmt-null", RT_NEG, ESNULLP, d, 16, 1, CALLF(d, 16, B, nf)); \
        d = mkdest(16); CASE(FN, bos ? "dmax-zero|bos" : "dmax-zero", RT_NEG, ESZEROL, NULL, 0, 1, CALLF(d, 0, B, "x")); \
        d = mkdest(16); CASE(FN, bos ? "dmax-above-limit|bos" : "dmax-above-limit", RT_NEG, bos ? 0 : ESLEMAX, NULL, 0, 1, CALLF(d, RSIZE_MAX_STR + 1, B, "x")); \
        if (bos) { d = mkdest(16); CASE(FN, "dmax-above-object-size|bos", RT_NEG, EOVERFLOW, NULL, 0, 1, CALLF(d, 17, 16, "x")); } \
        d = mkdest(16); CASE(FN, bos ? "%s-argument-null|bos" : "%s-argument-null", RT_NEG, ESNULLP, d, 16, 1, CALLF(d, 16, B, "ab%s", nul)); \
        d = mkdest(16); CASE(FN, bos ? "%ls-argument-null|bos" : "%ls-argument-null", RT_NEG, ESNULLP, d, 16, 1, CALLF(d, 16, B, "ab%ls", nul)); \
        d = mkdest(16); CASE(FN, bos ? "unsupported-conversion|bos" : "unsupported-conversion", RT_NEGANY, 0, d, 16, 1, CALLF(d, 16, B, "ab%y", 1)); \
        d = mkdest(16); CASE(FN, bos ? "text-does-not-fit|bos" : "text-does-not-fit", RT_NEG, ESNOSPC, d, 16, 1, CALLF(d, 16, B, "%s", "0123456789abcdefXYZ")); \
    } while (0)
        NP("sprintf_s", _sprintf_s_chk); NP("vsprintf_s", v_vsprintf_s);
#undef NP
        /* the truncating pair: "does not fit" is no violation there */
#define NT(FN, CALLF) do { \
        char *d = mkdest(16); size_t B = bos ? 16 : BOS_UNKNOWN; char *nul = NULL; const char *nf = NULL; \
        CASE(FN, bos ? "dest-null|bos" : "dest-null", RT_NEG, ESNULLP, NULL, 0, 1, CALLF(nul, 16, BOS_UNKNOWN, "x")); \
        d = mkdest(16); CASE(FN, bos ? "fmt-null|bos" : "fmt-null", RT_NEG, ESNULLP, d, 16, 1, CALLF(d, 16, B, nf)); \
        d = mkdest(16); CASE(FN, bos ? "dmax-zero|bos" : "dmax-zero", RT_NEG, ESZEROL, NULL, 0, 1, CALLF(d, 0, B, "x")); \
        d = mkdest(16); CASE(FN, bos ? "dmax-above-limit|bos" : "dmax-above-limit", RT_NEG, bos ? 0 : ESLEMAX, NULL, 0, 1, CALLF(d, RSIZE_MAX_STR + 1, B, "x")); \
        if (bos) { d = mkdest(16); CASE(FN, "dmax-above-object-size|bos", RT_NEG, EOVERFLOW, NULL, 0, 1, CALLF(d, 17, 16, "x")); } \
        d = mkdest(16); CASE(FN, bos ? "%s-argument-null|bos" : "%s-argument-null", RT_NEG, ESNULLP, d, 16, 1, CALLF(d, 16, B, "ab%s", nul)); \
        d = mkdest(16); CASE(FN, bos ? "%ls-argument-null|bos" : "%ls-argument-null", RT_NEG, ESNULLP, d, 16, 1, CALLF(d, 16, B, "ab%ls", nul)); \
        d = mkdest(16); CASE(FN, bos ? "unsupported-conversion|bos" : "unsupported-conversion", RT_NEGANY, 0, d, 16, 1, CALLF(d, 16, B, "ab%y", 1)); \
    } while (0)
        NT("snprintf_s", _snprintf_s_chk); NT("vsnprintf_s", v_vsnprintf_s);
#undef NT
    }
    {   const char *nf = NULL; char *nul = NULL; FILE *ns = NULL;
        CASE("fprintf_s", "stream-null", RT_NEG, ESNULLP, NULL, 0, 1, fprintf_s(ns, "x"));
        CASE("fprintf_s", "fmt-null", RT_NEG, ESNULLP, NULL, 0, 1, fprintf_s(g_nstream, nf));
        CASE("fprintf_s", "%s-argument-null", RT_NEG, ESNULLP, NULL, 0, 1, fprintf_s(g_nstream, "ab%s", nul));
        CASE("fprintf_s", "%ls-argument-null", RT_NEG, ESNULLP, NULL, 0, 1, fprintf_s(g_nstream, "ab%ls", nul));
        CASE("fprintf_s", "unsupported-conversion", RT_NEGANY, 0, NULL, 0, 1, fprintf_s(g_nstream, "ab%y", 1));
        CASE("vfprintf_s", "stream-null", RT_NEG, ESNULLP, NULL, 0, 1, v_vfprintf_s(ns, "x"));
        CASE("vfprintf_s", "fmt-null", RT_NEG, ESNULLP, NULL, 0, 1, v_vfprintf_s(g_nstream, nf));
        CASE("vfprintf_s", "%s-argument-null", RT_NEG, ESNULLP, NULL, 0, 1, v_vfprintf_s(g_nstream, "ab%s", nul));
        CASE("vfprintf_s", "%ls-argument-null", RT_NEG, ESNULLP, NULL, 0, 1, v_vfprintf_s(g_nstream, "ab%ls", nul));
        CASE("vfprintf_s", "unsupported-conversion", RT_NEGANY, 0, NULL, 0, 1, v_vfprintf_s(g_nstream, "ab%y", 1));
        CASE("printf_s", "fmt-null", RT_NEG, ESNULLP, NULL, 0, 1, printf_s(nf));
        CASE("printf_s", "%s-argument-null", RT_NEG, ESNULLP, NULL, 0, 1, printf_s("ab%s", nul));
        CASE("printf_s", "%ls-argument-null", RT_NEG, ESNULLP, NULL, 0, 1, printf_s("ab%ls", nul));
        CASE("printf_s", "unsupported-conversion", RT_NEGANY, 0, NULL, 0, 1, printf_s("ab%y", 1));
        CASE("vprintf_s", "fmt-null", RT_NEG, ESNULLP, NULL, 0, 1, v_vprintf_s(nf));
        CASE("vprintf_s", "%s-argument-null", RT_NEG, ESNULLP, NULL, 0, 1, v_vprintf_s("ab%s", nul));
        CASE("vprintf_s", "unsupported-conversion", RT_NEGANY, 0, NULL, 0, 1, v_vprintf_s("ab%y", 1));
    }
}
static void wide_printf(void) {
    for (int bos = 0; bos < 2; bos++) {
#define WP(FN, CALLF, FITVIOL) do { \
        wchar_t *d = mkdest(64); size_t B = bos ? 64 : BOS_UNKNOWN; wchar_t *nul = NULL; const wchar_t *nf = NULL; \
        CASE(FN, bos ? "dest-null|bos" : "dest-null", RT_NEG, ESNULLP, NULL, 0, 4, CALLF(nul, 16, BOS_UNKNOWN, L"x")); \
        d = mkdest(64); CASE(FN, bos ? "fmt-null|bos" : "fmt-null", RT_NEG, ESNULLP, d, 64, 4, CALLF(d, 16, B, nf)); \
        d = mkdest(64); CASE(FN, bos ? "dmax-zero|bos" : "dmax-zero", RT_NEG, ESZEROL, NULL, 0, 4, CALLF(d, 0, B, L"x")); \
        d = mkdest(64); CASE(FN, bos ? "dmax-above-limit|bos" : "dmax-above-limit", RT_NEG, bos ? 0 : ESLEMAX, NULL, 0, 4, CALLF(d, RSIZE_MAX_WSTR + 1, B, L"x")); \
        if (bos) { d = mkdest(64); CASE(FN, "dmax-above-object-size|bos", RT_NEG, EOVERFLOW, NULL, 0, 4, CALLF(d, 17, 64, L"x")); } \
        if (FITVIOL) { d = mkdest(64); CASE(FN, bos ? "text-does-not-fit|bos" : "text-does-not-fit", RT_NEG, ESNOSPC, d, 64, 4, CALLF(d, 16, B, L"%ls", L"0123456789abcdefXYZ")); } \
    } while (0)
        WP("swprintf_s", _swprintf_s_chk, 1); WP("vswprintf_s", v_vswprintf_s, 1); WP("snwprintf_s", _snwprintf_s_chk, 0); WP("vsnwprintf_s", v_vsnwprintf_s, 0);
#undef WP
    }
    {   const wchar_t *nf = NULL; FILE *ns = NULL;
        CASE("fwprintf_s", "stream-null", RT_NEG, ESNULLP, NULL, 0, 4, fwprintf_s(ns, L"x"));
        CASE("fwprintf_s", "fmt-null", RT_NEG, ESNULLP, NULL, 0, 4, fwprintf_s(g_wstream, nf));
        CASE("vfwprintf_s", "stream-null", RT_NEG, ESNULLP, NULL, 0, 4, v_vfwprintf_s(ns, L"x"));
        CASE("vfwprintf_s", "fmt-null", RT_NEG, ESNULLP, NULL, 0, 4, v_vfwprintf_s(g_wstream, nf));
        CASE("wprintf_s", "fmt-null", RT_NEG, ESNULLP, NULL, 0, 4, wprintf_s(nf));
        CASE("vwprintf_s", "fmt-null", RT_NEG, ESNULLP, NULL, 0, 4, v_vwprintf_s(nf));
    }
}
static void scanf_family(void) {
    const char *nf = NULL, *nb = NULL; const wchar_t *wnf = NULL, *wnb = NULL; FILE *ns = NULL; int x = 0;
    CASE("sscanf_s", "buffer-null", RT_EOF, ESNULLP, NULL, 0, 1, sscanf_s(nb, "%d", &x));
    CASE("sscanf_s", "fmt-null", RT_EOF, ESNULLP, NULL, 0, 1, sscanf_s("12", nf, &x));
    CASE("vsscanf_s", "buffer-null", RT_EOF, ESNULLP, NULL, 0, 1, v_vsscanf_s(nb, "%d", &x));
    CASE("vsscanf_s", "fmt-null", RT_EOF, ESNULLP, NULL, 0, 1, v_vsscanf_s("12", nf, &x));
    CASE("fscanf_s", "stream-null", RT_EOF, ESNULLP, NULL, 0, 1, fscanf_s(ns, "%d", &x));
    CASE("fscanf_s", "fmt-null", RT_EOF, ESNULLP, NULL, 0, 1, fscanf_s(g_rstream, nf, &x));
    CASE("vfscanf_s", "stream-null", RT_EOF, ESNULLP, NULL, 0, 1, v_vfscanf_s(ns, "%d", &x));
    CASE("vfscanf_s", "fmt-null", RT_EOF, ESNULLP, NULL, 0, 1, v_vfscanf_s(g_rstream, nf, &x));
    CASE("scanf_s", "fmt-null", RT_EOF, ESNULLP, NULL, 0, 1, scanf_s(nf, &x));
    CASE("vscanf_s", "fmt-null", RT_EOF, ESNULLP, NULL, 0, 1, v_vscanf_s(nf, &x));
    CASE("swscanf_s", "buffer-null", RT_EOF, ESNULLP, NULL, 0, 4, swscanf_s(wnb, L"%d", &x));
    CASE("swscanf_s", "fmt-null", RT_EOF, ESNULLP, NULL, 0, 4, swscanf_s(L"12", wnf, &x));
    CASE("vswscanf_s", "buffer-null", RT_EOF, ESNULLP, NULL, 0, 4, v_vswscanf_s(wnb, L"%d", &x));
    CASE("vswscanf_s", "fmt-null", RT_EOF, ESNULLP, NULL, 0, 4, v_vswscanf_s(L"12", wnf, &x));
    CASE("fwscanf_s", "stream-null", RT_EOF, ESNULLP, NULL, 0, 4, fwscanf_s(ns, L"%d", &x));
    CASE("fwscanf_s", "fmt-null", RT_EOF, ESNULLP, NULL, 0, 4, fwscanf_s(g_wrstream, wnf, &x));
    CASE("vfwscanf_s", "stream-null", RT_EOF, ESNULLP, NULL, 0, 4, v_vfwscanf_s(ns, L"%d", &x));
    CASE("vfwscanf_s", "fmt-null", RT_EOF, ESNULLP, NULL, 0, 4, v_vfwscanf_s(g_wrstream, wnf, &x));
    CASE("wscanf_s", "fmt-null", RT_EOF, ESNULLP, NULL, 0, 4, wscanf_s(wnf, &x));
    CASE("vwscanf_s", "fmt-null", RT_EOF, ESNULLP, NULL, 0, 4, v_vwscanf_s(wnf, &x));
}
static void tokenizers(void) {
    for (int bos = 0; bos < 2; bos++) {
        char *d, *ptr = NULL; rsize_t dm; size_t B = bos ? 8 : BOS_UNKNOWN; const char *nd = NULL; char **np = NULL; rsize_t *ndm = NULL;
        d = mkdest(8); memcpy(d, "a,b,c,d", 8); dm = 8; PCASE("strtok_s", bos ? "dmaxp-null|bos" : "dmaxp-null", ESNULLP, NULL, 0, 1, _strtok_s_chk(d, ndm, ",", &ptr, B));
        d = mkdest(8); memcpy(d, "a,b,c,d", 8); dm = 8; PCASE("strtok_s", bos ? "delim-null|bos" : "delim-null", ESNULLP, NULL, 0, 1, _strtok_s_chk(d, &dm, nd, &ptr, B));
        d = mkdest(8); memcpy(d, "a,b,c,d", 8); dm = 8; PCASE("strtok_s", bos ? "ptr-null|bos" : "ptr-null", ESNULLP, NULL, 0, 1, _strtok_s_chk(d, &dm, ",", np, B));
        d = mkdest(8); memcpy(d, "a,b,c,d", 8); dm = 0; PCASE("strtok_s", bos ? "dmax-zero|bos" : "dmax-zero", ESZEROL, NULL, 0, 1, _strtok_s_chk(d, &dm, ",", &ptr, B));
        d = mkdest(8); memcpy(d, "a,b,c,d", 8); dm = RSIZE_MAX_STR + 1; PCASE("strtok_s", bos ? "dmax-above-limit|bos" : "dmax-above-limit", bos ? 0 : ESLEMAX, NULL, 0, 1, _strtok_s_chk(d, &dm, ",", &ptr, B));
        if (bos) { d = mkdest(8); memcpy(d, "a,b,c,d", 8); dm = 9; PCASE("strtok_s", "dmax-above-object-size|bos", EOVERFLOW, NULL, 0, 1, _strtok_s_chk(d, &dm, ",", &ptr, 8)); }
        ptr = NULL; dm = 8; PCASE("strtok_s", bos ? "dest-null-and-no-continuation|bos" : "dest-null-and-no-continuation", ESNULLP, NULL, 0, 1, _strtok_s_chk(NULL, &dm, ",", &ptr, BOS_UNKNOWN));
        wchar_t *w, *wptr = NULL; size_t WB = bos ? 32 : BOS_UNKNOWN; const wchar_t *wnd = NULL; wchar_t **wnp = NULL;
        w = mkdest(32); wmemcpy(w, L"a,b,c,d", 8); dm = 8; PCASE("wcstok_s", bos ? "dmaxp-null|bos" : "dmaxp-null", ESNULLP, NULL, 0, 4, _wcstok_s_chk(w, ndm, L",", &wptr, WB));
        w = mkdest(32); wmemcpy(w, L"a,b,c,d", 8); dm = 8; PCASE("wcstok_s", bos ? "delim-null|bos" : "delim-null", ESNULLP, NULL, 0, 4, _wcstok_s_chk(w, &dm, wnd, &wptr, WB));
        w = mkdest(32); wmemcpy(w, L"a,b,c,d", 8); dm = 8; PCASE("wcstok_s", bos ? "ptr-null|bos" : "ptr-null", ESNULLP, NULL, 0, 4, _wcstok_s_chk(w, &dm, L",", wnp, WB));
        w = mkdest(32); wmemcpy(w, L"a,b,c,d", 8); dm = 0; PCASE("wcstok_s", bos ? "dmax-zero|bos" : "dmax-zero", ESZEROL, NULL, 0, 4, _wcstok_s_chk(w, &dm, L",", &wptr, WB));
        w = mkdest(32); wmemcpy(w, L"a,b,c,d", 8); dm = RSIZE_MAX_WSTR + 1; PCASE("wcstok_s", bos ? "dmax-above-limit|bos" : "dmax-above-limit", bos ? 0 : ESLEMAX, NULL, 0, 4, _wcstok_s_chk(w, &dm, L",", &wptr, WB));
        if (bos) { w = mkdest(32); wmemcpy(w, L"a,b,c,d", 8); dm = 9; PCASE("wcstok_s", "dmax-above-object-size|bos", EOVERFLOW, NULL, 0, 4, _wcstok_s_chk(w, &dm, L",", &wptr, 32)); }
        wptr = NULL; dm = 8; PCASE("wcstok_s", bos ? "dest-null-and-no-continuation|bos" : "dest-null-and-no-continuation", ESNULLP, NULL, 0, 4, _wcstok_s_chk(NULL, &dm, L",", &wptr, BOS_UNKNOWN));
    }
}
static void sort_search(void) {
    for (int bos = 0; bos < 2; bos++) {
        int *a = mkdest(32); for (int i = 0; i < 8; i++) a[i] = i * 3; size_t B = bos ? 32 : BOS_UNKNOWN; int key = 9; void *nb = NULL;
        CASE("qsort_s", bos ? "base-null|bos" : "base-null", RT_ERRNO, ESNULLP, NULL, 0, 1, _qsort_s_chk(nb, 8, 4, cmp_int, NULL, BOS_UNKNOWN));
        CASE("qsort_s", bos ? "compar-null|bos" : "compar-null", RT_ERRNO, ESNULLP, NULL, 0, 1, _qsort_s_chk(a, 8, 4, NULL, NULL, B));
        CASE("qsort_s", bos ? "nmemb-above-limit|bos" : "nmemb-above-limit", RT_ERRNO, bos ? 0 : ESLEMAX, NULL, 0, 1, _qsort_s_chk(a, RSIZE_MAX_MEM + 1, 4, cmp_int, NULL, B));
        CASE("qsort_s", bos ? "size-above-limit|bos" : "size-above-limit", RT_ERRNO, bos ? 0 : ESLEMAX, NULL, 0, 1, _qsort_s_chk(a, 8, RSIZE_MAX_MEM + 1, cmp_int, NULL, B));
        if (bos) CASE("qsort_s", "nmemb*size-above-object-size|bos", RT_ERRNO, 0, NULL, 0, 1, _qsort_s_chk(a, 9, 4, cmp_int, NULL, 32));
        PCASE("bsearch_s", bos ? "key-null|bos" : "key-null", ESNULLP, NULL, 0, 1, _bsearch_s_chk(NULL, a, 8, 4, cmp_int, NULL, B));
        PCASE("bsearch_s", bos ? "base-null|bos" : "base-null", ESNULLP, NULL, 0, 1, _bsearch_s_chk(&key, nb, 8, 4, cmp_int, NULL, BOS_UNKNOWN));
        PCASE("bsearch_s", bos ? "compar-null|bos" : "compar-null", ESNULLP, NULL, 0, 1, _bsearch_s_chk(&key, a, 8, 4, NULL, NULL, B));
        PCASE("bsearch_s", bos ? "nmemb-above-limit|bos" : "nmemb-above-limit", bos ? 0 : ESLEMAX, NULL, 0, 1, _bsearch_s_chk(&key, a, RSIZE_MAX_MEM + 1, 4, cmp_int, NULL, B));
        PCASE("bsearch_s", bos ? "size-above-limit|bos" : "size-above-limit", bos ? 0 : ESLEMAX, NULL, 0, 1, _bsearch_s_chk(&key, a, 8, RSIZE_MAX_MEM + 1, cmp_int, NULL, B));
        if (bos) PCASE("bsearch_s", "nmemb*size-above-object-size|bos", 0, NULL, 0, 1, _bsearch_s_chk(&key, a, 9, 4, cmp_int, NULL, 32));
    }
    (void)cmp_int2;
}
static void fold_norm(void) {
    static const wchar_t HIGH[] = {L'a', 0x110000, L'b', 0}, HIGH2[] = {L'a', 0x7fffffff, 0}, OKS[] = {L'A', 0xC5, L'b', 0};
    for (int bos = 0; bos < 2; bos++) {
        wchar_t *d; size_t B = bos ? 64 : BOS_UNKNOWN; wchar_t *nd = NULL; const wchar_t *ns = NULL; rsize_t len = 0;
        CASE("towfc_s", bos ? "dest-null|bos" : "dest-null", RT_NEG, ESNULLP, NULL, 0, 4, _towfc_s_chk(nd, 4, 0xDF, BOS_UNKNOWN));
        d = mkdest(64); CASE("towfc_s", bos ? "dmax-below-4|bos" : "dmax-below-4", RT_NEG, ESLEMIN, NULL, 0, 4, _towfc_s_chk(d, 3, 0xDF, B));
        d = mkdest(64); CASE("towfc_s", bos ? "dmax-above-limit|bos" : "dmax-above-limit", RT_NEG, bos ? 0 : ESLEMAX, NULL, 0, 4, _towfc_s_chk(d, RSIZE_MAX_WSTR + 1, 0xDF, B));
        if (bos) { d = mkdest(64); CASE("towfc_s", "dmax-above-object-size|bos", RT_NEG, EOVERFLOW, NULL, 0, 4, _towfc_s_chk(d, 17, 0xDF, 64)); }
        CASE("wcsfc_s", bos ? "dest-null|bos" : "dest-null", RT_ERRNO, ESNULLP, NULL, 0, 4, _wcsfc_s_chk(nd, 16, OKS, &len, BOS_UNKNOWN));
        d = mkdest(64); CASE("wcsfc_s", bos ? "src-null|bos" : "src-null", RT_ERRNO, ESNULLP, d, 64, 4, _wcsfc_s_chk(d, 16, ns, &len, B));
        d = mkdest(64); CASE("wcsfc_s", bos ? "dmax-zero|bos" : "dmax-zero", RT_ERRNO, ESZEROL, NULL, 0, 4, _wcsfc_s_chk(d, 0, OKS, &len, B));
        d = mkdest(64); CASE("wcsfc_s", bos ? "dmax-above-limit|bos" : "dmax-above-limit", RT_ERRNO, bos ? 0 : ESLEMAX, NULL, 0, 4, _wcsfc_s_chk(d, RSIZE_MAX_WSTR + 1, OKS, &len, B));
        if (bos) { d = mkdest(64); CASE("wcsfc_s", "dmax-above-object-size|bos", RT_ERRNO, EOVERFLOW, NULL, 0, 4, _wcsfc_s_chk(d, 17, OKS, &len, 64)); }
        d = mkdest(64); CASE("wcsfc_s", bos ? "result-does-not-fit|bos" : "result-does-not-fit", RT_ERRNO, ESNOSPC, d, 64, 4, _wcsfc_s_chk(d, 16, L"ABCDEFGHIJKLMNOPQRSTUVWXYZ", &len, B));
        for (int m = 0; m < 2; m++) {
            wcsnorm_mode_t mode = m ? WCSNORM_NFC : WCSNORM_NFD; const char *fn = "wcsnorm_s";
            CASE(fn, m ? "dest-null|NFC" : "dest-null|NFD", RT_ERRNO, ESNULLP, NULL, 0, 4, _wcsnorm_s_chk(nd, 16, OKS, mode, &len, BOS_UNKNOWN));
            d = mkdest(64); CASE(fn, m ? "src-null|NFC" : "src-null|NFD", RT_ERRNO, ESNULLP, d, 64, 4, _wcsnorm_s_chk(d, 16, ns, mode, &len, B));
            d = mkdest(64); CASE(fn, m ? "dmax-zero|NFC" : "dmax-zero|NFD", RT_ERRNO, ESZEROL, NULL, 0, 4, _wcsnorm_s_chk(d, 0, OKS, mode, &len, B));
            d = mkdest(64); CASE(fn, m ? "dmax-below-5|NFC" : "dmax-below-5|NFD", RT_ERRNO, ESLEMIN, d, 16, 4, _wcsnorm_s_chk(d, 4, OKS, mode, &len, bos ? 16 : BOS_UNKNOWN));
            d = mkdest(64); CASE(fn, m ? "dmax-above-limit|NFC" : "dmax-above-limit|NFD", RT_ERRNO, bos ? 0 : ESLEMAX, NULL, 0, 4, _wcsnorm_s_chk(d, RSIZE_MAX_WSTR + 1, OKS, mode, &len, B));
            if (bos) { d = mkdest(64); CASE(fn, m ? "dmax-above-object-size|NFC" : "dmax-above-object-size|NFD", RT_ERRNO, EOVERFLOW, NULL, 0, 4, _wcsnorm_s_chk(d, 17, OKS, mode, &len, 64)); }
            d = mkdest(64); CASE(fn, m ? "code-point-above-10FFFF|NFC" : "code-point-above-10FFFF|NFD", RT_ERRNO, ESLEMAX, d, 64, 4, _wcsnorm_s_chk(d, 16, HIGH, mode, &len, B));
            d = mkdest(64); CASE(fn, m ? "code-point-7FFFFFFF|NFC" : "code-point-7FFFFFFF|NFD", RT_ERRNO, ESLEMAX, d, 64, 4, _wcsnorm_s_chk(d, 16, HIGH2, mode, &len, B));
            /* the same with the source above dest in memory (the library has one copy loop per operand order) */
            { wchar_t *hs = place_end(1, sizeof HIGH); memcpy(hs, HIGH, sizeof HIGH); d = mkdest(64); CASE(fn, m ? "code-point-above-10FFFF|src-above-dest|NFC" : "code-point-above-10FFFF|src-above-dest|NFD", RT_ERRNO, ESLEMAX, d, 64, 4, _wcsnorm_s_chk(d, 16, hs, mode, &len, B)); }
            { wchar_t *hs = place_end(0, sizeof HIGH2); memcpy(hs, HIGH2, sizeof HIGH2); wchar_t *d1 = place_end(1, 64); memset((uint8_t *)d1 - 32, CANARY, 32); for (size_t i = 0; i < 64; i++) ((uint8_t *)d1)[i] = (uint8_t)(0x61 + i % 23);
              CASE(fn, m ? "code-point-7FFFFFFF|src-below-dest|NFC" : "code-point-7FFFFFFF|src-below-dest|NFD", RT_ERRNO, ESLEMAX, d1, 64, 4, _wcsnorm_s_chk(d1, 16, hs, mode, &len, B)); }
            d = mkdest(64); CASE(fn, m ? "result-does-not-fit|NFC" : "result-does-not-fit|NFD", RT_ERRNO, ESNOSPC, d, 64, 4, _wcsnorm_s_chk(d, 16, L"ÅÅÅÅÅÅÅÅÅÅ", mode, &len, B));
            d = mkdest(64); wmemcpy(d, L"abÅcdef", 8); CASE(fn, m ? "src-inside-dest|NFC" : "src-inside-dest|NFD", RT_ERRNO, ESOVRLP, d, 64, 4, _wcsnorm_s_chk(d, 16, d + 1, mode, &len, B));
        }
        d = mkdest(64); CASE("wcsfc_s", bos ? "code-point-above-10FFFF|bos" : "code-point-above-10FFFF", RT_ERRNO, ESLEMAX, d, 64, 4, _wcsfc_s_chk(d, 16, HIGH, &len, B));
        d = mkdest(64); CASE("wcsnorm_decompose_s", bos ? "src-null|bos" : "src-null", RT_ERRNO, ESNULLP, d, 64, 4, _wcsnorm_decompose_s_chk(d, 16, ns, &len, false, B));
        CASE("wcsnorm_decompose_s", bos ? "dest-null|bos" : "dest-null", RT_ERRNO, ESNULLP, NULL, 0, 4, _wcsnorm_decompose_s_chk(nd, 16, OKS, &len, false, BOS_UNKNOWN));
        d = mkdest(64); CASE("wcsnorm_decompose_s", bos ? "code-point-above-10FFFF|bos" : "code-point-above-10FFFF", RT_ERRNO, ESLEMAX, d, 64, 4, _wcsnorm_decompose_s_chk(d, 16, HIGH, &len, false, B));
        { wchar_t *hs = place_end(1, sizeof HIGH); memcpy(hs, HIGH, sizeof HIGH); d = mkdest(64); CASE("wcsnorm_decompose_s", bos ? "code-point-above-10FFFF|src-above-dest|bos" : "code-point-above-10FFFF|src-above-dest", RT_ERRNO, ESLEMAX, d, 64, 4, _wcsnorm_decompose_s_chk(d, 16, hs, &len, false, B)); }
        { wchar_t *hs = place_end(1, sizeof HIGH); memcpy(hs, HIGH, sizeof HIGH); d = mkdest(64); CASE("wcsfc_s", bos ? "code-point-above-10FFFF|src-above-dest|bos" : "code-point-above-10FFFF|src-above-dest", RT_ERRNO, ESLEMAX, d, 64, 4, _wcsfc_s_chk(d, 16, hs, &len, B)); }
        d = mkdest(64); CASE("wcsnorm_reorder_s", bos ? "src-null|bos" : "src-null", RT_ERRNO, ESNULLP, d, 64, 4, _wcsnorm_reorder_s_chk(d, 16, ns, 3, B));
        CASE("wcsnorm_reorder_s", bos ? "dest-null|bos" : "dest-null", RT_ERRNO, ESNULLP, NULL, 0, 4, _wcsnorm_reorder_s_chk(nd, 16, OKS, 3, BOS_UNKNOWN));
        d = mkdest(64); CASE("wcsnorm_reorder_s", bos ? "dmax-above-limit|bos" : "dmax-above-limit", RT_ERRNO, bos ? 0 : ESLEMAX, NULL, 0, 4, _wcsnorm_reorder_s_chk(d, RSIZE_MAX_WSTR + 1, OKS, 3, B));
        d = mkdest(64); CASE("wcsnorm_compose_s", bos ? "src-null|bos" : "src-null", RT_ERRNO, ESNULLP, NULL, 0, 4, _wcsnorm_compose_s_chk(d, 16, ns, &len, false, B));
        CASE("wcsnorm_compose_s", bos ? "dest-null|bos" : "dest-null", RT_ERRNO, ESNULLP, NULL, 0, 4, _wcsnorm_compose_s_chk(nd, 16, OKS, &len, false, BOS_UNKNOWN));
        d = mkdest(64); CASE("wcsnorm_compose_s", bos ? "lenp-null|bos" : "lenp-null", RT_ERRNO, ESNULLP, NULL, 0, 4, _wcsnorm_compose_s_chk(d, 16, OKS, NULL, false, B));
        d = mkdest(64); CASE("wcsnorm_compose_s", bos ? "dmax-above-limit|bos" : "dmax-above-limit", RT_ERRNO, bos ? 0 : ESLEMAX, NULL, 0, 4, _wcsnorm_compose_s_chk(d, RSIZE_MAX_WSTR + 1, OKS, &len, false, B));
    }
}
static void conversions(void) {
    for (int bos = 0; bos < 2; bos++) {
        size_t rv = 77; const char *mb = "hello", *nmb = NULL; const wchar_t *ws = L"hello", *nws = NULL; mbstate_t st; memset(&st, 0, sizeof st);
        wchar_t *wd; char *cd; size_t WB = bos ? 64 : BOS_UNKNOWN, CB = bos ? 16 : BOS_UNKNOWN;
        wd = mkdest(64); CASE("mbstowcs_s", bos ? "retvalp-null|bos" : "retvalp-null", RT_ERRNO, ESNULLP, wd, 64, 4, _mbstowcs_s_chk(NULL, wd, 16, mb, 5, WB));
        wd = mkdest(64); CASE("mbstowcs_s", bos ? "src-null|bos" : "src-null", RT_ERRNO, ESNULLP, wd, 64, 4, _mbstowcs_s_chk(&rv, wd, 16, nmb, 5, WB));
        wd = mkdest(64); CASE("mbstowcs_s", bos ? "dmax-zero-with-dest|bos" : "dmax-zero-with-dest", RT_ERRNO, ESZEROL, NULL, 0, 4, _mbstowcs_s_chk(&rv, wd, 0, mb, 5, WB));
        wd = mkdest(64); CASE("mbstowcs_s", bos ? "dmax-above-limit|bos" : "dmax-above-limit", RT_ERRNO, bos ? 0 : ESLEMAX, NULL, 0, 4, _mbstowcs_s_chk(&rv, wd, RSIZE_MAX_WSTR + 1, mb, 5, WB));
        if (bos) { wd = mkdest(64); CASE("mbstowcs_s", "dmax-above-object-size|bos", RT_ERRNO, EOVERFLOW, NULL, 0, 4, _mbstowcs_s_chk(&rv, wd, 17, mb, 5, 64)); }
        const char *mbp = mb;
        wd = mkdest(64); CASE("mbsrtowcs_s", bos ? "retvalp-null|bos" : "retvalp-null", RT_ERRNO, ESNULLP, wd, 64, 4, _mbsrtowcs_s_chk(NULL, wd, 16, &mbp, 5, &st, WB));
        wd = mkdest(64); CASE("mbsrtowcs_s", bos ? "srcp-null|bos" : "srcp-null", RT_ERRNO, ESNULLP, wd, 64, 4, _mbsrtowcs_s_chk(&rv, wd, 16, NULL, 5, &st, WB));
        { const char *np = NULL; wd = mkdest(64); CASE("mbsrtowcs_s", bos ? "*srcp-null|bos" : "*srcp-null", RT_ERRNO, ESNULLP, wd, 64, 4, _mbsrtowcs_s_chk(&rv, wd, 16, &np, 5, &st, WB)); }
        wd = mkdest(64); mbp = mb; CASE("mbsrtowcs_s", bos ? "ps-null|bos" : "ps-null", RT_ERRNO, ESNULLP, wd, 64, 4, _mbsrtowcs_s_chk(&rv, wd, 16, &mbp, 5, NULL, WB));
        wd = mkdest(64); mbp = mb; CASE("mbsrtowcs_s", bos ? "dmax-zero-with-dest|bos" : "dmax-zero-with-dest", RT_ERRNO, ESZEROL, NULL, 0, 4, _mbsrtowcs_s_chk(&rv, wd, 0, &mbp, 5, &st, WB));
        wd = mkdest(64); mbp = mb; CASE("mbsrtowcs_s", bos ? "dmax-above-limit|bos" : "dmax-above-limit", RT_ERRNO, bos ? 0 : ESLEMAX, NULL, 0, 4, _mbsrtowcs_s_chk(&rv, wd, RSIZE_MAX_WSTR + 1, &mbp, 5, &st, WB));
        cd = mkdest(16); CASE("wcstombs_s", bos ? "retvalp-null|bos" : "retvalp-null", RT_ERRNO, ESNULLP, cd, 16, 1, _wcstombs_s_chk(NULL, cd, 16, ws, 5, CB));
        cd = mkdest(16); CASE("wcstombs_s", bos ? "src-null|bos" : "src-null", RT_ERRNO, ESNULLP, cd, 16, 1, _wcstombs_s_chk(&rv, cd, 16, nws, 5, CB));
        cd = mkdest(16); CASE("wcstombs_s", bos ? "dmax-zero-with-dest|bos" : "dmax-zero-with-dest", RT_ERRNO, ESZEROL, NULL, 0, 1, _wcstombs_s_chk(&rv, cd, 0, ws, 5, CB));
        cd = mkdest(16); CASE("wcstombs_s", bos ? "dmax-above-limit|bos" : "dmax-above-limit", RT_ERRNO, bos ? 0 : ESLEMAX, NULL, 0, 1, _wcstombs_s_chk(&rv, cd, RSIZE_MAX_STR + 1, ws, 5, CB));
        if (bos) { cd = mkdest(16); CASE("wcstombs_s", "dmax-above-object-size|bos", RT_ERRNO, EOVERFLOW, NULL, 0, 1, _wcstombs_s_chk(&rv, cd, 17, ws, 5, 16)); }
        const wchar_t *wsp = ws;
        cd = mkdest(16); CASE("wcsrtombs_s", bos ? "retvalp-null|bos" : "retvalp-null", RT_ERRNO, ESNULLP, cd, 16, 1, _wcsrtombs_s_chk(NULL, cd, 16, &wsp, 5, &st, CB));
        cd = mkdest(16); CASE("wcsrtombs_s", bos ? "srcp-null|bos" : "srcp-null", RT_ERRNO, ESNULLP, cd, 16, 1, _wcsrtombs_s_chk(&rv, cd, 16, NULL, 5, &st, CB));
        { const wchar_t *np = NULL; cd = mkdest(16); CASE("wcsrtombs_s", bos ? "*srcp-null|bos" : "*srcp-null", RT_ERRNO, ESNULLP, cd, 16, 1, _wcsrtombs_s_chk(&rv, cd, 16, &np, 5, &st, CB)); }
        cd = mkdest(16); wsp = ws; CASE("wcsrtombs_s", bos ? "ps-null|bos" : "ps-null", RT_ERRNO, ESNULLP, cd, 16, 1, _wcsrtombs_s_chk(&rv, cd, 16, &wsp, 5, NULL, CB));
        cd = mkdest(16); wsp = ws; CASE("wcsrtombs_s", bos ? "dmax-zero-with-dest|bos" : "dmax-zero-with-dest", RT_ERRNO, ESZEROL, NULL, 0, 1, _wcsrtombs_s_chk(&rv, cd, 0, &wsp, 5, &st, CB));
        cd = mkdest(16); wsp = ws; CASE("wcsrtombs_s", bos ? "dmax-above-limit|bos" : "dmax-above-limit", RT_ERRNO, bos ? 0 : ESLEMAX, NULL, 0, 1, _wcsrtombs_s_chk(&rv, cd, RSIZE_MAX_STR + 1, &wsp, 5, &st, CB));
        cd = mkdest(16); CASE("wcrtomb_s", bos ? "retvalp-null|bos" : "retvalp-null", RT_ERRNO, ESNULLP, cd, 16, 1, _wcrtomb_s_chk(NULL, cd, 16, L'a', &st, CB));
        cd = mkdest(16); CASE("wcrtomb_s", bos ? "ps-null|bos" : "ps-null", RT_ERRNO, ESNULLP, cd, 16, 1, _wcrtomb_s_chk(&rv, cd, 16, L'a', NULL, CB));
        cd = mkdest(16); CASE("wcrtomb_s", bos ? "dmax-zero-with-dest|bos" : "dmax-zero-with-dest", RT_ERRNO, ESZEROL, NULL, 0, 1, _wcrtomb_s_chk(&rv, cd, 0, L'a', &st, CB));
        cd = mkdest(16); CASE("wcrtomb_s", bos ? "dmax-above-limit|bos" : "dmax-above-limit", RT_ERRNO, bos ? 0 : ESLEMAX, NULL, 0, 1, _wcrtomb_s_chk(&rv, cd, RSIZE_MAX_STR + 1, L'a', &st, CB));
        { int rvi = 7; cd = mkdest(16); CASE("wctomb_s", bos ? "retvalp-null|bos" : "retvalp-null", RT_ERRNO, ESNULLP, cd, 16, 1, _wctomb_s_chk(NULL, cd, 16, L'a', CB));
          cd = mkdest(16); CASE("wctomb_s", bos ? "dmax-zero-with-dest|bos" : "dmax-zero-with-dest", RT_ERRNO, ESZEROL, NULL, 0, 1, _wctomb_s_chk(&rvi, cd, 0, L'a', CB));
          cd = mkdest(16); CASE("wctomb_s", bos ? "dmax-above-limit|bos" : "dmax-above-limit", RT_ERRNO, bos ? 0 : ESLEMAX, NULL, 0, 1, _wctomb_s_chk(&rvi, cd, RSIZE_MAX_STR + 1, L'a', CB)); }
    }
}
static void time_env_file(void) {
    struct tm tm; memset(&tm, 0, sizeof tm); tm.tm_year = 100; tm.tm_mday = 1; time_t t = 1000000000; const struct tm *ntm = NULL; const time_t *nt = NULL;
    for (int bos = 0; bos < 2; bos++) {
        char *d; size_t B = bos ? 40 : BOS_UNKNOWN; char *nd = NULL;
        CASE("asctime_s", bos ? "dest-null|bos" : "dest-null", RT_ERRNO, ESNULLP, NULL, 0, 1, _asctime_s_chk(nd, 40, &tm, BOS_UNKNOWN));
        d = mkdest(40); CASE("asctime_s", bos ? "tm-null|bos" : "tm-null", RT_ERRNO, ESNULLP, d, 40, 1, _asctime_s_chk(d, 40, ntm, B));
        d = mkdest(40); CASE("asctime_s", bos ? "dmax-below-26|bos" : "dmax-below-26", RT_ERRNO, ESLEMIN, NULL, 0, 1, _asctime_s_chk(d, 25, &tm, B));
        d = mkdest(40); CASE("asctime_s", bos ? "dmax-above-limit|bos" : "dmax-above-limit", RT_ERRNO, bos ? 0 : ESLEMAX, NULL, 0, 1, _asctime_s_chk(d, RSIZE_MAX_STR + 1, &tm, B));
        if (bos) { d = mkdest(40); CASE("asctime_s", "dmax-above-object-size|bos", RT_ERRNO, EOVERFLOW, NULL, 0, 1, _asctime_s_chk(d, 41, &tm, 40)); }
        { struct tm bad = tm; bad.tm_mon = 12; d = mkdest(40); CASE("asctime_s", bos ? "tm_mon-out-of-range|bos" : "tm_mon-out-of-range", RT_ERRNO, ESLEMAX, d, 40, 1, _asctime_s_chk(d, 40, &bad, B));
          bad = tm; bad.tm_sec = -1; d = mkdest(40); CASE("asctime_s", bos ? "tm_sec-negative|bos" : "tm_sec-negative", RT_ERRNO, ESLEMIN, d, 40, 1, _asctime_s_chk(d, 40, &bad, B));
          bad = tm; bad.tm_year = 8100; d = mkdest(40); CASE("asctime_s", bos ? "tm_year-above-8099|bos" : "tm_year-above-8099", RT_ERRNO, ESLEMAX, d, 40, 1, _asctime_s_chk(d, 40, &bad, B)); }
        CASE("ctime_s", bos ? "dest-null|bos" : "dest-null", RT_ERRNO, ESNULLP, NULL, 0, 1, _ctime_s_chk(nd, 40, &t, BOS_UNKNOWN));
        d = mkdest(40); CASE("ctime_s", bos ? "timer-null|bos" : "timer-null", RT_ERRNO, ESNULLP, d, 40, 1, _ctime_s_chk(d, 40, nt, B));
        d = mkdest(40); CASE("ctime_s", bos ? "dmax-below-26|bos" : "dmax-below-26", RT_ERRNO, ESLEMIN, NULL, 0, 1, _ctime_s_chk(d, 25, &t, B));
        d = mkdest(40); CASE("ctime_s", bos ? "dmax-above-limit|bos" : "dmax-above-limit", RT_ERRNO, bos ? 0 : ESLEMAX, NULL, 0, 1, _ctime_s_chk(d, RSIZE_MAX_STR + 1, &t, B));
        if (bos) { d = mkdest(40); CASE("ctime_s", "dmax-above-object-size|bos", RT_ERRNO, EOVERFLOW, NULL, 0, 1, _ctime_s_chk(d, 41, &t, 40)); }
        { time_t neg = -1; d = mkdest(40); CASE("ctime_s", bos ? "timer-negative|bos" : "timer-negative", RT_ERRNO, ESLEMIN, d, 40, 1, _ctime_s_chk(d, 40, &neg, B)); }
        CASE("strerror_s", bos ? "dest-null|bos" : "dest-null", RT_ERRNO, ESNULLP, NULL, 0, 1, _strerror_s_chk(nd, 40, 2, BOS_UNKNOWN));
        d = mkdest(40); CASE("strerror_s", bos ? "dmax-zero|bos" : "dmax-zero", RT_ERRNO, ESZEROL, NULL, 0, 1, _strerror_s_chk(d, 0, 2, B));
        d = mkdest(40); CASE("strerror_s", bos ? "dmax-above-limit|bos" : "dmax-above-limit", RT_ERRNO, bos ? 0 : ESLEMAX, NULL, 0, 1, _strerror_s_chk(d, RSIZE_MAX_STR + 1, 2, B));
        if (bos) { d = mkdest(40); CASE("strerror_s", "dmax-above-object-size|bos", RT_ERRNO, EOVERFLOW, NULL, 0, 1, _strerror_s_chk(d, 41, 2, 40)); }
        { size_t l = 5; const char *nn = NULL;
          d = mkdest(40); CASE("getenv_s", bos ? "name-null|bos" : "name-null", RT_ERRNO, ESNULLP, d, 40, 1, _getenv_s_chk(&l, d, 40, nn, B));
          d = mkdest(40); CASE("getenv_s", bos ? "dmax-above-limit|bos" : "dmax-above-limit", RT_ERRNO, bos ? 0 : ESLEMAX, NULL, 0, 1, _getenv_s_chk(&l, d, RSIZE_MAX_STR + 1, "PATH", B));
          CASE("getenv_s", bos ? "dest-null-with-dmax|bos" : "dest-null-with-dmax", RT_ERRNO, ESNULLP, NULL, 0, 1, _getenv_s_chk(&l, nd, 40, "PATH", BOS_UNKNOWN));
          if (bos) { d = mkdest(40); CASE("getenv_s", "dmax-above-object-size|bos", RT_ERRNO, EOVERFLOW, NULL, 0, 1, _getenv_s_chk(&l, d, 41, "PATH", 40)); } }
        PCASE("gets_s", bos ? "dest-null|bos" : "dest-null", ESNULLP, NULL, 0, 1, _gets_s_chk(nd, 40, BOS_UNKNOWN));
        d = mkdest(40); PCASE("gets_s", bos ? "dmax-zero|bos" : "dmax-zero", ESZEROL, NULL, 0, 1, _gets_s_chk(d, 0, B));
        d = mkdest(40); PCASE("gets_s", bos ? "dmax-above-limit|bos" : "dmax-above-limit", bos ? 0 : ESLEMAX, NULL, 0, 1, _gets_s_chk(d, RSIZE_MAX_STR + 1, B));
        if (bos) { d = mkdest(40); PCASE("gets_s", "dmax-above-object-size|bos", EOVERFLOW, NULL, 0, 1, _gets_s_chk(d, 41, 40)); }
    }
    {   struct tm out; struct tm *no = NULL;
        PCASE("gmtime_s", "timer-null", ESNULLP, NULL, 0, 1, gmtime_s(nt, &out));
        PCASE("gmtime_s", "dest-null", ESNULLP, NULL, 0, 1, gmtime_s(&t, no));
        PCASE("localtime_s", "timer-null", ESNULLP, NULL, 0, 1, localtime_s(nt, &out));
        PCASE("localtime_s", "dest-null", ESNULLP, NULL, 0, 1, localtime_s(&t, no));
        /* documented: errno EOVERFLOW for a time that cannot be represented, while the handler is told ESLEMIN/ESLEMAX */
        { time_t neg = -1; PACASE("gmtime_s", "timer-negative", gmtime_s(&neg, &out)); PACASE("localtime_s", "timer-negative", localtime_s(&neg, &out)); }
        FILE *f = NULL; FILE **nfp = NULL; const char *nn = NULL;
        CASE("tmpfile_s", "streamptr-null", RT_ERRNO, ESNULLP, NULL, 0, 1, tmpfile_s(nfp));
        CASE("fopen_s", "streamptr-null", RT_ERRNO, ESNULLP, NULL, 0, 1, fopen_s(nfp, "/dev/null", "r"));
        CASE("fopen_s", "filename-null", RT_ERRNO, ESNULLP, NULL, 0, 1, fopen_s(&f, nn, "r"));
        CASE("fopen_s", "mode-null", RT_ERRNO, ESNULLP, NULL, 0, 1, fopen_s(&f, "/dev/null", nn));
        CASE("freopen_s", "newstreamptr-null", RT_ERRNO, ESNULLP, NULL, 0, 1, freopen_s(nfp, "/dev/null", "r", g_rstream));
        CASE("freopen_s", "mode-null", RT_ERRNO, ESNULLP, NULL, 0, 1, freopen_s(&f, "/dev/null", nn, g_rstream));
        CASE("freopen_s", "stream-null", RT_ERRNO, ESNULLP, NULL, 0, 1, freopen_s(&f, "/dev/null", "r", NULL));
    }
    {   unsigned char a[8] = {1, 2, 3, 4, 5, 6, 7, 8}, b[8] = {1, 2, 3, 4, 5, 6, 7, 8};
        CASE("timingsafe_bcmp", "n-above-limit", RT_NEG, ESLEMAX, NULL, 0, 1, _timingsafe_bcmp_chk(a, b, RSIZE_MAX_MEM + 1, BOS_UNKNOWN, BOS_UNKNOWN));
        CASE("timingsafe_bcmp", "n-above-object-size-b1", RT_NEG, 0, NULL, 0, 1, _timingsafe_bcmp_chk(a, b, 9, 8, 8));
        CASE("timingsafe_bcmp", "n-above-object-size-b2", RT_NEG, 0, NULL, 0, 1, _timingsafe_bcmp_chk(a, b, 8, BOS_UNKNOWN, 7));
        CASE("timingsafe_memcmp", "n-above-limit", RT_NEG, ESLEMAX, NULL, 0, 1, _timingsafe_memcmp_chk(a, b, RSIZE_MAX_MEM + 1, BOS_UNKNOWN, BOS_UNKNOWN));
        CASE("timingsafe_memcmp", "n-above-object-size-b1", RT_NEG, 0, NULL, 0, 1, _timingsafe_memcmp_chk(a, b, 9, 8, 8));
        CASE("timingsafe_memcmp", "n-above-object-size-b2", RT_NEG, 0, NULL, 0, 1, _timingsafe_memcmp_chk(a, b, 8, BOS_UNKNOWN, 7));
    }
}

static void body(void *arg, long lo, long hi) {
    (void)arg; (void)hi;
    for (long g = lo; g < 8; g++) {
        g_shm->cur = g;
        switch (g) { case 0: narrow_printf(); break; case 1: wide_printf(); break; case 2: scanf_family(); break; case 3: tokenizers(); break;
                     case 4: sort_search(); break; case 5: fold_norm(); break; case 6: conversions(); break; case 7: time_env_file(); break; }
    }
    __sync_fetch_and_add(&CTR(0), n_calls); __sync_fetch_and_add(&CTR(1), n_c05); __sync_fetch_and_add(&CTR(2), n_c04); __sync_fetch_and_add(&CTR(60), g_fp_checks);
    distinct_emit();
}
static void on_death(void *arg, long at, int status, int hung) {
    (void)arg; char obs[200], key[200], what[300];
    static const char *G[] = {"narrow-printf", "wide-printf", "scanf", "tokenizers", "sort-search", "fold-norm", "conversions", "time-env-file"};
    CTR(3)++;
    if (!g_shm->in_call) { fprintf(g_out, "{\"t\":\"harness_error\",\"where\":\"cons group %ld status %d\"}\n", at, status); fflush(g_out); return; }
    snprintf(obs, sizeof obs, "process %s inside a constraint scenario of group %s (status %#x)", hung ? "hung" : "died", G[at >= 0 && at < 8 ? at : 0], status);
    snprintf(key, sizeof key, "group-%s|cons-%s|%s", G[at >= 0 && at < 8 ? at : 0], hung ? "hang" : "crash", hung ? "watchdog" : WIFSIGNALED(status) ? strsignal(WTERMSIG(status)) : "exit");
    snprintf(what, sizeof what, "constraint scenario kills the process: %s", obs);
    report(want("C05") ? "C05" : g_prop, key, what, "{\"harness\":\"cons\"}");
}

int main(int argc, char **argv) {
    g_out = fdopen(dup(1), "w");
    for (int i = 1; i < argc; i++) {
        if (!strcmp(argv[i], "--prop")) g_prop = argv[++i];
        else if (!strcmp(argv[i], "--tier")) ++i;
        else if (!strcmp(argv[i], "--seed")) g_seed = strtoull(argv[++i], NULL, 10);
        else if (!strcmp(argv[i], "--worker")) ++i;
        else if (!strcmp(argv[i], "--cfg")) { g_cfg = argv[++i]; g_noslack = !strcmp(g_cfg, "noslack"); }
        else { fprintf(stderr, "unknown arg %s\n", argv[i]); return 2; }
    }
    if (!freopen("/dev/null", "w", stdout)) return 2;
    if (!freopen("/dev/null", "r", stdin)) return 2;
    g_nstream = fopen("/dev/null", "w"); g_wstream = fopen("/dev/null", "w"); g_rstream = fopen("/dev/null", "r"); g_wrstream = fopen("/dev/null", "r");
    if (!g_nstream || !g_wstream || !g_rstream || !g_wrstream) return 2;
    fwide(g_wstream, 1); fwide(g_wrstream, 1);
    setlocale(LC_ALL, "C.UTF-8"); setenv("TZ", "UTC", 1); tzset();
    arena_init(); fence_init(); shm_init(); probes_install(); fp_init();
    run_supervised(body, on_death, NULL, 0, 8, 20);
    emit_counter("calls", CTR(0)); emit_counter("c05_decided", CTR(1)); emit_counter("c04_decided", CTR(2)); emit_counter("worker_deaths", CTR(3)); emit_counter("footprint_checks", CTR(60));
    fprintf(g_out, "{\"t\":\"end\"}\n"); fflush(g_out);
    return 0;
}
