/* misc: time / error-string / environment / line-input / file exports under the fence.
 * getenv_s strerror_s strerrorlen_s asctime_s ctime_s gmtime_s localtime_s gets_s tmpfile_s fopen_s freopen_s
 * Monitors: C01/C02 fence (dest exact-fit between PROT_NONE pages), C03 terminator, C04 cleared on failure,
 * C05 handler count/code + valid calls report nothing, C06 differential against getenv/strerror/asctime_r/
 * ctime_r/gmtime_r/localtime_r, C08 slack. */
#include "common.h"
#include <time.h>
#include <fcntl.h>
#include <stdio_ext.h>

static const char *g_cfg = "plain"; static int g_noslack, g_tier; static long g_skip_below;
static int want(const char *p) { return !strcmp(g_prop, "ALL") || !strcmp(g_prop, p); }
enum { K_CALLS, K_C06, K_C05, K_C03, K_DEATH, K_NUM };
static const char *KN[] = {"calls", "c06_decided", "c05_decided", "c03_decided", "worker_deaths"};
static unsigned long long K[K_NUM]; static char g_wit[900]; static int g_samples;


static void vio(const char *prop, const char *fn, const char *rule, const char *det, const char *obs, const char *scn) {
    char key[260], what[520];
    if (!want(prop)) return;
    snprintf(key, sizeof key, "%s|%s|%s|%s", fn, rule, det, (prop[2] == '3' || prop[2] == '4' || prop[2] == '8' || prop[2] == '1') ? g_cfg : "-");
    snprintf(what, sizeof what, "%s: %s: %s [%s]", fn, rule, obs, scn);
    char eo[300] = ""; for (const char *p = obs; *p && strlen(eo) < 290; p++) if (*p != '"' && *p != '\\' && (unsigned char)*p >= 32 && (unsigned char)*p < 127) sb_add(eo, sizeof eo, "%c", *p);
    snprintf(g_wit, sizeof g_wit, "{\"harness\":\"misc\",\"cfg\":\"%s\",\"fn\":\"%s\",\"scenario\":\"%s\",\"obs\":\"%s\",\"replay\":\"misc --cfg %s --seed %llu\"}", g_cfg, fn, scn, eo, g_cfg, (unsigned long long)g_seed);
    report(prop, key, what, g_wit);
}

/* common post-call checks for a string-producing call: dest (exact-fit, dmax bytes), rc (0 = success), expected text or NULL */
static void check_strprod(const char *fn, uint8_t *dest, size_t dmax, long rc, int success, const char *expect, int expect_fit, const char *cls, const char *scn) {
    char obs[300];
    K[K_CALLS]++;
    int hc = g_h.count;
    {   char b[160]; snprintf(b, sizeof b, "%s;%s;%ld;%d", fn, cls, rc, hc); distinct_add(hash_str(b)); }
    if (g_fence.faulted) {
        long off = (long)(g_fence.addr - (uintptr_t)dest);
        snprintf(obs, sizeof obs, "%s fault at dest%+ld (dmax %zu)", g_fence.is_write ? "WRITE" : "READ", off, dmax);
        vio(g_fence.is_write ? "C01" : "C02", fn, g_fence.is_write ? "W-fault" : "R-fault", off == (long)dmax ? "dest+dmax+0" : off > (long)dmax ? "past-dest" : "elsewhere", obs, scn);
        return;
    }
    for (int i = 0; i < 32; i++) if (dest[-32 + i] != CANARY) { vio("C01", fn, "write-before-dest", cls, "canary in front of dest changed", scn); break; }
    /* C05 */
    K[K_C05]++;
    if (hc > 1) { snprintf(obs, sizeof obs, "%d handler invocations (%s,%s) rc=%ld", hc, errname(g_h.code[0]), errname(g_h.code[1]), rc); vio("C05", fn, "R1-handler-invoked-more-than-once", cls, obs, scn); }
    else if (hc == 1 && rc > 0 && g_h.code[0] != rc) { snprintf(obs, sizeof obs, "handler got %s, call returned %s", errname(g_h.code[0]), errname(rc)); vio("C05", fn, "R2-handler-code-differs-from-returned-code", cls, obs, scn); }
    else if (hc == 1 && success) { snprintf(obs, sizeof obs, "handler invoked with %s (%.50s) but the call reports success", errname(g_h.code[0]), g_h.msg[0]); vio("C05", fn, "R2-handler-invoked-but-success-returned", cls, obs, scn); }
    else if (hc == 0 && !success && rc >= 400 && rc <= 410) { snprintf(obs, sizeof obs, "returned %s without invoking the handler", errname(rc)); vio("C05", fn, "R3-failure-returned-without-handler", cls, obs, scn); }
    else if (expect && expect_fit && !success) { snprintf(obs, sizeof obs, "valid call failed with %ld (handler %d: %.50s)", rc, hc, hc ? g_h.msg[0] : ""); vio("C05", fn, "R4-valid-call-reported-as-violation", cls, obs, scn); }
    /* C03 */
    if (dmax) { K[K_C03]++; if (strnlen((char *)dest, dmax) == dmax) { snprintf(obs, sizeof obs, "no NUL in dest[0..%zu) after rc=%ld", dmax, rc); vio("C03", fn, "unterminated-dest", cls, obs, scn); } }
    /* C04 */
    if (!success && dmax) {
        if (dest[0]) { snprintf(obs, sizeof obs, "rc=%ld but dest[0]=%#x", rc, dest[0]); vio("C04", fn, "dest[0]-not-zero", cls, obs, scn); }
        else for (size_t i = 1; i < dmax; i++) if (dest[i] && dest[i] != (uint8_t)(0x61 + i % 26)) { snprintf(obs, sizeof obs, "rc=%ld but dest[%zu]=%#x holds part of the result", rc, i, dest[i]); vio("C04", fn, g_noslack ? "partial-result-visible" : "partial-result-visible", cls, obs, scn); break; }
    }
    /* C06 / C08 */
    if (success && expect) {
        K[K_C06]++;
        if (!expect_fit) { snprintf(obs, sizeof obs, "returned success although '%.40s' (%zu chars) does not fit in dmax=%zu; stored '%.40s'", expect, strlen(expect), dmax, (char *)dest); vio("C06", fn, "success-although-result-does-not-fit", cls, obs, scn); }
        else if (dmax && strcmp((char *)dest, expect)) { snprintf(obs, sizeof obs, "stored '%.60s', reference '%.60s'", (char *)dest, expect); vio("C06", fn, "dest-differs-from-reference", cls, obs, scn); }
        else if (dmax && !g_noslack && (!strcmp(fn, "getenv_s") || !strcmp(fn, "gets_s"))) {   /* C08 names the environment and line-input functions, not the time / error strings */
            size_t l = strlen(expect); for (size_t i = l; i < dmax; i++) if (dest[i]) { snprintf(obs, sizeof obs, "result length %zu, dmax %zu, dest[%zu]=%#x", l, dmax, i, dest[i]); vio("C08", fn, "stale-data-behind-terminator", cls, obs, scn); break; } }
    }
}
static uint8_t *mkdest(size_t dmax) { uint8_t *d = place_end(0, dmax); memset(d - 32, CANARY, 32); for (size_t i = 0; i < dmax; i++) d[i] = (uint8_t)(0x61 + i % 26); return d; }

static void t_getenv(void) {
    char val[90], scn[160]; static const size_t LENS[] = {0, 1, 2, 7, 31, 32, 33, 70};
    for (unsigned li = 0; li < sizeof LENS / sizeof LENS[0]; li++) {
        size_t L = LENS[li]; for (size_t i = 0; i < L; i++) val[i] = (char)('A' + i % 26); val[L] = 0; setenv("VERIF_ENV_X", val, 1);
        long rel[] = {-2, -1, 0, 1, 2, 9};
        for (int ri = 0; ri < 6; ri++) for (int lenp = 0; lenp < 2; lenp++) for (int bos = 0; bos < 2; bos++) {
            long dm = (long)L + rel[ri]; if (dm < 1) continue; size_t dmax = (size_t)dm;
            uint8_t *dest = mkdest(dmax); size_t *lp = place_end(2, sizeof(size_t)); *lp = 0x5a5a;
            probes_reset(); errno_t rc = -999; g_cur_fn = "getenv_s";
            g_shm->in_call = 1; FENCED(rc = _getenv_s_chk(lenp ? lp : NULL, (char *)dest, dmax, "VERIF_ENV_X", bos ? dmax : BOS_UNKNOWN)); g_shm->in_call = 0;
            snprintf(scn, sizeof scn, "value length %zu, dmax %zu, len ptr %s, bos %d", L, dmax, lenp ? "given" : "NULL", bos);
            check_strprod("getenv_s", dest, dmax, rc, rc == EOK, val, L < dmax, rel[ri] <= 0 ? "value-does-not-fit" : rel[ri] == 1 ? "exact-fit" : "fits", scn);
            if (!g_fence.faulted && rc == EOK && lenp && *lp != L && want("C06")) { char obs[100]; snprintf(obs, sizeof obs, "*len = %zu, value length %zu", *lp, L); vio("C06", "getenv_s", "returned-length-wrong", "len", obs, scn); }
        }
        /* size query: dest NULL, dmax 0 */
        {   size_t *lp = place_end(2, sizeof(size_t)); *lp = 0x5a5a; probes_reset(); errno_t rc = -999; g_shm->in_call = 1; FENCED(rc = _getenv_s_chk(lp, NULL, 0, "VERIF_ENV_X", BOS_UNKNOWN)); g_shm->in_call = 0; K[K_CALLS]++;
            snprintf(scn, sizeof scn, "size query, value length %zu", L);
            if (!g_fence.faulted && (rc != EOK || *lp != L || g_h.count) && want("C06")) { char obs[120]; snprintf(obs, sizeof obs, "size query returned %d, *len=%zu, handler %d; value length %zu", rc, *lp, g_h.count, L); vio("C06", "getenv_s", "size-query-wrong", "query", obs, scn); } }
    }
    /* not found / NULL name */
    {   uint8_t *dest = mkdest(8); probes_reset(); errno_t rc = -999; g_shm->in_call = 1; FENCED(rc = _getenv_s_chk(NULL, (char *)dest, 8, "VERIF_ENV_DOES_NOT_EXIST", 8)); g_shm->in_call = 0;
        check_strprod("getenv_s", dest, 8, rc, 0, NULL, 0, "not-found", "unset variable");
        if (!g_fence.faulted && g_h.count && want("C05")) vio("C05", "getenv_s", "R4b-handler-invoked-for-plain-not-found", "not-found", "handler invoked for an unset variable", "unset variable");
        dest = mkdest(8); probes_reset(); g_shm->in_call = 1; FENCED(rc = _getenv_s_chk(NULL, (char *)dest, 8, NULL, 8)); g_shm->in_call = 0; check_strprod("getenv_s", dest, 8, rc, 0, NULL, 0, "null-name", "name NULL"); }
}
static void t_strerror(void) {
    static const int ERRS[] = {0, 1, 2, 13, 22, 34, 84, 133, 400, 401, 403, 406, 407, 410, 411, -1, 9999}; char scn[120];
    for (unsigned e = 0; e < sizeof ERRS / sizeof ERRS[0]; e++) {
        const char *ref = (ERRS[e] >= 400 && ERRS[e] <= 410) ? NULL : strerror(ERRS[e]); char refc[200]; if (ref) snprintf(refc, sizeof refc, "%s", ref);
        size_t L = strerrorlen_s(ERRS[e]);
        if (ref && L != strlen(refc) && want("C06")) { char obs[100]; snprintf(obs, sizeof obs, "strerrorlen_s(%d)=%zu, strlen(strerror)=%zu", ERRS[e], L, strlen(refc)); vio("C06", "strerrorlen_s", "length-differs-from-strerror", "len", obs, "errnum"); }
        size_t dms[] = {1, 2, 3, 4, 5, L ? L - 1 : 1, L, L + 1, L + 10};
        for (unsigned di = 0; di < 9; di++) { size_t dmax = dms[di]; if (!dmax) continue;
            uint8_t *dest = mkdest(dmax); probes_reset(); errno_t rc = -999; g_cur_fn = "strerror_s";
            g_shm->in_call = 1; FENCED(rc = _strerror_s_chk((char *)dest, dmax, ERRS[e], (di & 1) ? dmax : BOS_UNKNOWN)); g_shm->in_call = 0;
            snprintf(scn, sizeof scn, "errnum %d (message length %zu), dmax %zu", ERRS[e], L, dmax);
            /* C11 K.3.7.4.2: the message is truncated with "..." when it does not fit and dmax > 3: the standard counterpart itself */
            char exp[220]; const char *expect = NULL; int fit = 1;
            if (ref) { if (L < dmax) snprintf(exp, sizeof exp, "%s", refc); else if (dmax > 3) { snprintf(exp, sizeof exp, "%.*s...", (int)(dmax - 4), refc); } else fit = 0; expect = exp; if (!fit) expect = NULL; }
            check_strprod("strerror_s", dest, dmax, rc, rc == EOK, expect, 1, L < dmax ? "fits" : dmax > 3 ? "truncated-with-dots" : "dmax<=3", scn);
        } }
}
static void t_time(void) {
    char scn[160], ref[64]; struct tm tm;
    static const int YEARS[] = {-1900, -1, 0, 70, 99, 100, 123, 8099, 8100, 9999}; static const size_t DM[] = {1, 25, 26, 27, 40, 119, 120, 130};
    for (unsigned y = 0; y < sizeof YEARS / sizeof YEARS[0]; y++) for (int bad = 0; bad < 4; bad++) for (unsigned d = 0; d < sizeof DM / sizeof DM[0]; d++) {
        memset(&tm, 0, sizeof tm); tm.tm_year = YEARS[y]; tm.tm_mon = 5; tm.tm_mday = 15; tm.tm_hour = 13; tm.tm_min = 59; tm.tm_sec = 58; tm.tm_wday = 2; tm.tm_yday = 100;
        if (bad == 1) tm.tm_mon = 12; if (bad == 2) tm.tm_sec = 62; if (bad == 3) tm.tm_wday = -1;
        int valid = bad == 0 && YEARS[y] >= -1900 + 0 && YEARS[y] <= 8099 && YEARS[y] >= 0 - 0;   /* documented: year between 0-8099 (tm_year + 1900?) */
        size_t dmax = DM[d]; uint8_t *dest = mkdest(dmax); probes_reset(); errno_t rc = -999; g_cur_fn = "asctime_s";
        g_shm->in_call = 1; FENCED(rc = _asctime_s_chk((char *)dest, dmax, &tm, (d & 1) ? dmax : BOS_UNKNOWN)); g_shm->in_call = 0;
        const char *expect = NULL; if (bad == 0 && YEARS[y] >= 0 && YEARS[y] <= 8099 && asctime_r(&tm, ref)) expect = ref;
        (void)valid;
        snprintf(scn, sizeof scn, "tm_year %d, invalid-member %d, dmax %zu", YEARS[y], bad, dmax);
        check_strprod("asctime_s", dest, dmax, rc, rc == EOK, dmax >= 26 ? expect : NULL, expect ? strlen(expect) < dmax : 0, dmax < 26 ? "dmax<26" : bad ? "invalid-tm" : (YEARS[y] < 0 || YEARS[y] > 8099) ? "year-out-of-range" : "valid", scn);
    }
    static const long long TIMES[] = {0, 1, 86399, 1000000000LL, 2147483647LL, 4102444800LL, 253402300799LL, 313360441200LL, 313360441201LL, -1, -86400, (long long)1e15};
    for (unsigned t = 0; t < sizeof TIMES / sizeof TIMES[0]; t++) for (unsigned d = 0; d < sizeof DM / sizeof DM[0]; d++) {
        time_t tt = (time_t)TIMES[t]; size_t dmax = DM[d]; uint8_t *dest = mkdest(dmax); time_t *tp = place_end(2, sizeof(time_t)); *tp = tt; probes_reset(); errno_t rc = -999; g_cur_fn = "ctime_s";
        g_shm->in_call = 1; FENCED(rc = _ctime_s_chk((char *)dest, dmax, tp, (d & 1) ? dmax : BOS_UNKNOWN)); g_shm->in_call = 0;
        const char *expect = NULL; if (TIMES[t] >= 0 && TIMES[t] <= 313360441200LL && ctime_r(&tt, ref)) expect = ref;
        snprintf(scn, sizeof scn, "time %lld, dmax %zu", TIMES[t], dmax);
        check_strprod("ctime_s", dest, dmax, rc, rc == EOK, dmax >= 26 ? expect : NULL, expect ? strlen(expect) < dmax : 0, dmax < 26 ? "dmax<26" : (TIMES[t] < 0 || TIMES[t] > 313360441200LL) ? "time-out-of-range" : "valid", scn);
        /* gmtime_s / localtime_s */
        for (int loc = 0; loc < 2; loc++) {
            struct tm *out = place_end(3, sizeof(struct tm)), want_tm, *r = (void *)-1, *rr; memset(out, 0x5a, sizeof *out); memset(&want_tm, 0, sizeof want_tm);
            probes_reset(); g_cur_fn = loc ? "localtime_s" : "gmtime_s";
            g_shm->in_call = 1; FENCED(r = loc ? localtime_s(tp, out) : gmtime_s(tp, out)); g_shm->in_call = 0; K[K_CALLS]++;
            rr = loc ? localtime_r(&tt, &want_tm) : gmtime_r(&tt, &want_tm);
            const char *fn = loc ? "localtime_s" : "gmtime_s";
            if (g_fence.faulted) { vio(g_fence.is_write ? "C01" : "C02", fn, g_fence.is_write ? "W-fault" : "R-fault", "struct-tm-out", "fault around the struct tm out-parameter", scn); continue; }
            if (r && rr && TIMES[t] >= 0) { K[K_C06]++; if (r != out || out->tm_year != want_tm.tm_year || out->tm_mon != want_tm.tm_mon || out->tm_mday != want_tm.tm_mday || out->tm_hour != want_tm.tm_hour || out->tm_min != want_tm.tm_min || out->tm_sec != want_tm.tm_sec || out->tm_wday != want_tm.tm_wday || out->tm_yday != want_tm.tm_yday) vio("C06", fn, "result-differs-from-reference", "broken-down-time", "struct tm differs from gmtime_r/localtime_r", scn); }
            if (!r && g_h.count == 0 && want("C05") && TIMES[t] >= 0 && TIMES[t] <= 313360441200LL) vio("C05", fn, "R4-valid-call-failed", "valid-time", "NULL returned for a valid time", scn);
        }
    }
}
static char g_inpath[64];
static void set_stdin(const char *text, size_t n) {   /* a fresh stream per scenario: no buffered state survives from the previous one */
    FILE *w = fopen(g_inpath, "w"); if (w) { if (n) fwrite(text, 1, n, w); fclose(w); }
    if (!freopen(g_inpath, "r", stdin)) { fprintf(stderr, "misc: freopen(stdin) failed\n"); _exit(3); }
}
static void t_gets(void) {
    char line[200], scn[160]; static const size_t DM[] = {1, 2, 3, 8, 31, 32, 33, 64};
    for (unsigned d = 0; d < sizeof DM / sizeof DM[0]; d++) for (long rel = -3; rel <= 3; rel++) for (int nl = 0; nl < 2; nl++) {
        size_t dmax = DM[d]; long L = (long)dmax + rel; if (L < 0) continue;
        for (long i = 0; i < L; i++) line[i] = (char)('a' + i % 26); size_t n = (size_t)L; if (nl) line[n++] = '\n'; memcpy(line + n, "NEXT\n", 5);
        set_stdin(line, n + (nl ? 5 : 0));
        uint8_t *dest = mkdest(dmax); probes_reset(); char *r = (char *)-1; errno = 0; g_cur_fn = "gets_s";
        g_shm->in_call = 1; FENCED(r = _gets_s_chk((char *)dest, dmax, (d & 1) ? dmax : BOS_UNKNOWN)); g_shm->in_call = 0;
        int e = errno; char exp[200]; memcpy(exp, line, (size_t)L); exp[L] = 0;
        snprintf(scn, sizeof scn, "line of %ld chars%s, dmax %zu", L, nl ? " + newline" : " then EOF", dmax);
        int fit = (size_t)L < dmax;
        if (g_fence.faulted) { fflush(stdin); }
        check_strprod("gets_s", dest, dmax, r ? 0 : (e ? e : -1), r != NULL, (L > 0 || nl) ? exp : NULL, fit, fit ? (nl ? "line-fits" : "eof-terminated-line-fits") : "line-too-long", scn);
    }
}
/* gets_s when the read itself fails (stdin is a directory: EISDIR; stdin closed: EBADF): dest must still end up terminated / empty */
static void t_gets_readerror(void) {
    char scn[120]; int saved = dup(0);
    for (int kind = 0; kind < 2; kind++) for (int bos = 0; bos < 2; bos++) {
        size_t dmax = 12; int fd = -1;
        if (kind == 0) { fd = open("/", O_RDONLY); if (fd < 0) continue; dup2(fd, 0); close(fd); } else close(0);
        __fpurge(stdin); clearerr(stdin);        /* nothing buffered: the next read goes to the descriptor */
        uint8_t *dest = mkdest(dmax); probes_reset(); char *r = (char *)-1; errno = 0; g_cur_fn = "gets_s";
        g_shm->in_call = 1; FENCED(r = _gets_s_chk((char *)dest, dmax, bos ? dmax : BOS_UNKNOWN)); g_shm->in_call = 0;
        int e = errno;
        dup2(saved, 0); __fpurge(stdin); clearerr(stdin);
        snprintf(scn, sizeof scn, "read error on stdin (%s), dmax %zu", kind == 0 ? "directory: EISDIR" : "closed: EBADF", dmax);
        if (!g_fence.faulted && r != NULL && want("C06")) vio("C06", "gets_s", "success-although-read-failed", "read-error", "returned dest although the read failed", scn);
        check_strprod("gets_s", dest, dmax, r ? 0 : (e ? e : -1), r != NULL, NULL, 0, "read-error", scn);
    }
    close(saved);
}
static void t_files(void) {
    FILE **fp = place_end(2, sizeof(FILE *)); errno_t rc;
    *fp = (FILE *)0x5a5a; probes_reset(); g_cur_fn = "tmpfile_s"; g_shm->in_call = 1; FENCED(rc = tmpfile_s(fp)); g_shm->in_call = 0; K[K_CALLS]++;
    if (g_fence.faulted) vio(g_fence.is_write ? "C01" : "C02", "tmpfile_s", "fault", "out-param", "fault around the FILE* out-parameter", "tmpfile_s(&fp)");
    else { if (rc == EOK && *fp && *fp != (FILE *)0x5a5a) fclose(*fp); else if (want("C05") && !g_h.count) vio("C05", "tmpfile_s", "R3-failure-returned-without-handler", "valid", "tmpfile_s failed silently", "tmpfile_s"); }
    probes_reset(); g_shm->in_call = 1; FENCED(rc = tmpfile_s(NULL)); g_shm->in_call = 0; K[K_CALLS]++;
    if (!g_fence.faulted && (rc != ESNULLP || g_h.count != 1 || g_h.code[0] != rc) && want("C05")) vio("C05", "tmpfile_s", "null-streamptr-not-reported-once", "null", "tmpfile_s(NULL)", "NULL");
    static const char *modes[] = {"r", "w", "zz", NULL};
    for (int m = 0; m < 4; m++) for (int fnull = 0; fnull < 2; fnull++) {
        *fp = (FILE *)0x5a5a; probes_reset(); g_cur_fn = "fopen_s"; g_shm->in_call = 1; FENCED(rc = fopen_s(fp, fnull ? NULL : "/dev/null", modes[m])); g_shm->in_call = 0; K[K_CALLS]++;
        if (g_fence.faulted) { vio(g_fence.is_write ? "C01" : "C02", "fopen_s", "fault", "out-param", "fault", "fopen_s"); continue; }
        if (g_h.count > 1 && want("C05")) vio("C05", "fopen_s", "R1-handler-invoked-more-than-once", "fopen", "two handler invocations", "fopen_s");
        if (rc == EOK && *fp && *fp != (FILE *)0x5a5a) {
            FILE **np = place_end(3, sizeof(FILE *)); *np = NULL; probes_reset(); g_cur_fn = "freopen_s"; errno_t r2; g_shm->in_call = 1; FENCED(r2 = freopen_s(np, "/dev/null", "r", *fp)); g_shm->in_call = 0; K[K_CALLS]++;
            if (!g_fence.faulted && r2 == EOK && *np) fclose(*np); else if (!g_fence.faulted) fclose(*fp);
        } else if (rc != EOK && !fnull && modes[m] && m < 2 && want("C05")) vio("C05", "fopen_s", "R4-valid-call-failed", "valid", "fopen_s(/dev/null) failed", "fopen_s");
    }
    {   char b[40]; snprintf(b, sizeof b, "files"); distinct_add(hash_str(b)); }
}
static void body(void *a, long lo, long hi) {
    (void)a; (void)hi; g_skip_below = lo;
    /* five groups; a death inside group k restarts at group k+1 */
    void (*grp[6])(void) = {t_getenv, t_strerror, t_time, t_gets, t_files, t_gets_readerror};
    for (long g = lo; g < 6; g++) { g_shm->cur = g; grp[g](); }
    for (int i = 0; i < K_NUM; i++) __sync_fetch_and_add(&CTR(i), K[i]); __sync_fetch_and_add(&CTR(60), g_fp_checks); distinct_emit();
}
static void on_death(void *a, long idx, int status, int hung) {
    (void)a; char key[200], what[300], w[300]; CTR(K_DEATH)++; static const char *gn[6] = {"getenv_s", "strerror_s", "asctime_s/ctime_s/gmtime_s/localtime_s", "gets_s", "tmpfile_s/fopen_s/freopen_s", "gets_s(read error)"};
    if (!g_shm->in_call) { fprintf(g_out, "{\"t\":\"harness_error\",\"idx\":%ld,\"status\":%d}\n", idx, status); fflush(g_out); return; }
    snprintf(key, sizeof key, "%s|worker-%s|%s", idx < 6 ? gn[idx] : "?", hung ? "hang" : "death", hung ? "watchdog" : WIFSIGNALED(status) ? strsignal(WTERMSIG(status)) : "exit");
    snprintf(what, sizeof what, "process %s inside a call of group %s (status %#x)", hung ? "hung" : "died", idx < 6 ? gn[idx] : "?", status);
    snprintf(w, sizeof w, "{\"harness\":\"misc\",\"cfg\":\"%s\",\"group\":%ld,\"replay\":\"misc --cfg %s\"}", g_cfg, idx, g_cfg);
    report(want("C01") ? "C01" : g_prop, key, what, w);
}
int main(int argc, char **argv) {
    g_out = fdopen(dup(1), "w");
    for (int i = 1; i < argc; i++) {
        if (!strcmp(argv[i], "--prop")) g_prop = argv[++i];
        else if (!strcmp(argv[i], "--tier")) g_tier = !strcmp(argv[++i], "thorough");
        else if (!strcmp(argv[i], "--seed")) g_seed = strtoull(argv[++i], NULL, 10);
        else if (!strcmp(argv[i], "--worker")) ++i;
        else if (!strcmp(argv[i], "--cfg")) { g_cfg = argv[++i]; g_noslack = !strcmp(g_cfg, "noslack"); }
        else if (!strcmp(argv[i], "--verbose")) g_verbose = 1;
        else { fprintf(stderr, "unknown arg %s\n", argv[i]); return 2; }
    }
    setlocale(LC_ALL, "C"); setenv("TZ", "UTC", 1); tzset();
    { snprintf(g_inpath, sizeof g_inpath, "/tmp/misc-stdin-XXXXXX"); int fd = mkstemp(g_inpath); if (fd < 0) return 2; close(fd); if (!freopen(g_inpath, "r", stdin)) return 2; }
    arena_init(); fence_init(); shm_init(); probes_install(); fp_init();
    int dummy = 0; run_supervised(body, on_death, &dummy, 0, 6, 30);
    for (int i = 0; i < K_NUM; i++) emit_counter(KN[i], CTR(i));
    emit_counter("footprint_checks", CTR(60));
    fprintf(g_out, "{\"t\":\"end\"}\n"); fflush(g_out);
    unlink(g_inpath);
    return 0;
}
