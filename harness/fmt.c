/* fmt: the 8 narrow printf_s entry points called as real variadic / va_list calls with generated formats.
 *  C11  text and count vs libc snprintf (integers, chars, strings, %%), float layout/value check, fit / no-fit
 *       behaviour (dmax swept from 1 to needed+2), stream variants vs buffer variant, history independence
 *  C09  %n in any spelling is rejected and never stored through
 *  C01/C02 fence (dest and %s arguments exact-fit against PROT_NONE), C03 terminator, C04 cleared on failure,
 *  C05 handler count / code, C08 slack after success */
#include "common.h"
#include "vcall_gen.h"
#include <math.h>
#include <float.h>
#include <limits.h>

static const char *g_cfg = "plain"; static int g_noslack;
static int g_tier, g_wid, g_nw = 1; static long g_only_idx = -1, g_skip_below;
static int want(const char *p) { return !strcmp(g_prop, "ALL") || !strcmp(g_prop, p); }

enum { T_SPRINTF, T_SNPRINTF, T_VSPRINTF, T_VSNPRINTF, T_FPRINTF, T_VFPRINTF, T_PRINTF, T_VPRINTF, T_NUM };
static const char *TN[T_NUM] = {"sprintf_s", "snprintf_s", "vsprintf_s", "vsnprintf_s", "fprintf_s", "vfprintf_s", "printf_s", "vprintf_s"};
static const int T_TRUNC[T_NUM] = {0, 1, 0, 1, 0, 0, 0, 0};   /* snprintf_s / vsnprintf_s are the documented truncating forms */

/* va_list trampolines */
static int tr_vsprintf(char *d, size_t n, size_t b, const char *f, ...) { va_list ap; va_start(ap, f); int r = _vsprintf_s_chk(d, n, b, f, ap); va_end(ap); return r; }
static int tr_vsnprintf(char *d, size_t n, size_t b, const char *f, ...) { va_list ap; va_start(ap, f); int r = _vsnprintf_s_chk(d, n, b, f, ap); va_end(ap); return r; }
static int tr_vfprintf(FILE *s, const char *f, ...) { va_list ap; va_start(ap, f); int r = vfprintf_s(s, f, ap); va_end(ap); return r; }
static int tr_vprintf(const char *f, ...) { va_list ap; va_start(ap, f); int r = vprintf_s(f, ap); va_end(ap); return r; }

static char *P_dest; static size_t P_n, P_b; static const char *P_fmt; static FILE *P_stream; static int P_ret;
#define C_sprintf(...)   P_ret = _sprintf_s_chk(P_dest, P_n, P_b, P_fmt, ##__VA_ARGS__)
#define C_snprintf(...)  P_ret = _snprintf_s_chk(P_dest, P_n, P_b, P_fmt, ##__VA_ARGS__)
#define C_vsprintf(...)  P_ret = tr_vsprintf(P_dest, P_n, P_b, P_fmt, ##__VA_ARGS__)
#define C_vsnprintf(...) P_ret = tr_vsnprintf(P_dest, P_n, P_b, P_fmt, ##__VA_ARGS__)
#define C_fprintf(...)   P_ret = fprintf_s(P_stream, P_fmt, ##__VA_ARGS__)
#define C_vfprintf(...)  P_ret = tr_vfprintf(P_stream, P_fmt, ##__VA_ARGS__)
#define C_printf(...)    P_ret = printf_s(P_fmt, ##__VA_ARGS__)
#define C_vprintf(...)   P_ret = tr_vprintf(P_fmt, ##__VA_ARGS__)
#define C_libc(...)      P_ret = snprintf(P_dest, P_n, P_fmt, ##__VA_ARGS__)
static void call_target(int t, const varg_t *a, int na, int code) {
    switch (t) {
    case T_SPRINTF:   VCALL_SWITCH(C_sprintf, na, code); break;
    case T_SNPRINTF:  VCALL_SWITCH(C_snprintf, na, code); break;
    case T_VSPRINTF:  VCALL_SWITCH(C_vsprintf, na, code); break;
    case T_VSNPRINTF: VCALL_SWITCH(C_vsnprintf, na, code); break;
    case T_FPRINTF:   VCALL_SWITCH(C_fprintf, na, code); break;
    case T_VFPRINTF:  VCALL_SWITCH(C_vfprintf, na, code); break;
    case T_PRINTF:    VCALL_SWITCH(C_printf, na, code); break;
    case T_VPRINTF:   VCALL_SWITCH(C_vprintf, na, code); break;
    default:          VCALL_SWITCH(C_libc, na, code); break;
    }
}

/* ------------------------------------------------------------------ format cases */
typedef struct {
    char fmt[160]; varg_t a[4]; int na, code;
    char cls[120];            /* feature class for keys: conv / length / flags / width class / precision class / value class */
    int has_n;                /* contains a %n-type directive */
    int n_argpos[4], n_cnt;   /* argument positions that are %n targets */
    int is_float, float_conv; int float_prec; double fval; long double lval; int is_long;
    int strarg;               /* index of a %s argument placed in the arena (-1 none) */ size_t str_len, str_prec; int str_unterm;
    int invalid_arg;          /* an argument is invalid (NULL %s, bad %lc): failure is allowed */
    int one_dir;
    char rc[64];              /* root-cause class of a possible text deviation (coarse key) */
    char reffmt[24];          /* %p: the reference text comes from this libc format instead (the library renders pointers as 2*sizeof(void*) upper-case hex digits) */
    int utf8;                 /* run (library call and reference) under LC_ALL=C.UTF-8 */
    int ref_fails;            /* C printf itself fails (argument not representable in the locale): the library must fail as well, leaving nothing behind */
} fcase;

static long long SENT[4];   /* %n sentinels */
#define POISON 0x5A5A5A5A5A5A5A5ALL

static void add_g(fcase *c, long long v) { c->a[c->na].cls = 0; c->a[c->na].g = v; c->na++; }
static void add_f(fcase *c, double v) { c->a[c->na].cls = 1; c->a[c->na].f = v; c->code += 1 * (int)pow(3, c->na); c->na++; }
static void add_x(fcase *c, long double v) { c->a[c->na].cls = 2; c->a[c->na].x = v; c->code += 2 * (int)pow(3, c->na); c->na++; }

static const char *INT_CONV = "diuxXo";
static const char *LENS[] = {"", "hh", "h", "l", "ll", "z", "j", "t"};
static const char *FLAGSETS[] = {"", "-", "+", " ", "#", "0", "-+", "- ", "-#", "+0", " 0", "#0", "+#0", "-0"};
static const int WIDTHS[] = {-1, 1, 5, 33, 40, -2, -3};      /* -2: '*' positive, -3: '*' negative */
static const int PRECS[] = {-1, 0, 1, 9, 10, 40, -2};        /* -2: '.*' */
static const long long IVALS[] = {0, 1, -1, 9, 10, 255, -128, 65535, INT_MAX, INT_MIN, LLONG_MAX, LLONG_MIN, 1234567890123LL, -42, 4294967295LL};
static const char *wcls(int w) { return w == -1 ? "w-none" : w == -2 ? "w-star" : w == -3 ? "w-negstar" : w <= 5 ? "w-small" : "w-ge33"; }
static const char *pcls(int p) { return p == -1 ? "p-none" : p == -2 ? "p-star" : p == 0 ? "p0" : p <= 10 ? "p1..10" : "p40"; }
static const char *vcls(long long v) { return v == 0 ? "v0" : v > 0 ? (v > INT_MAX ? "v>int" : "v+") : (v < INT_MIN ? "v<int" : "v-"); }

static void put_dir(char *out, size_t cap, const char *flags, int width, int prec, const char *len, char conv, fcase *c, int starw, int starp) {
    sb_add(out, cap, "%%%s", flags);
    if (width == -2) { sb_add(out, cap, "*"); add_g(c, starw); } else if (width == -3) { sb_add(out, cap, "*"); add_g(c, -starw); } else if (width >= 0) sb_add(out, cap, "%d", width);
    if (prec == -2) { sb_add(out, cap, ".*"); add_g(c, starp); } else if (prec >= 0) sb_add(out, cap, ".%d", prec);
    sb_add(out, cap, "%s%c", len, conv);
}
static long long fit_len(long long v, const char *len, char conv) {   /* value as the callee will read it after default promotions: keep in range of the modifier to stay defined */
    int uns = conv != 'd' && conv != 'i';
    /* hh and h: the promoted int argument "shall be converted to (un)signed char / short before printing" (C11 7.21.6.1p7), so any int value is defined input */
    if (!strcmp(len, "hh") || !strcmp(len, "h") || !strcmp(len, "")) return uns ? (unsigned)v : (int)v;
    return v;
}

/* integer sweep: complete over the feature lattice (index -> case) */
static long n_int_cases(void) { return 6L * 8 * 14 * 7 * 7 * 15; }
static void int_case(long k, fcase *c) {
    memset(c, 0, sizeof *c); c->strarg = -1; c->one_dir = 1;
    int vi = (int)(k % 15); k /= 15; int pi = (int)(k % 7); k /= 7; int wi = (int)(k % 7); k /= 7; int fi = (int)(k % 14); k /= 14; int li = (int)(k % 8); k /= 8; int ci = (int)(k % 6);
    char conv = INT_CONV[ci]; long long v = fit_len(IVALS[vi], LENS[li], conv);
    put_dir(c->fmt, sizeof c->fmt, FLAGSETS[fi], WIDTHS[wi], PRECS[pi], LENS[li], conv, c, 7, 3);
    add_g(c, v);
    snprintf(c->cls, sizeof c->cls, "%%%c|len=%s|flags='%s'|%s|%s|%s", conv, LENS[li][0] ? LENS[li] : "-", FLAGSETS[fi], wcls(WIDTHS[wi]), pcls(PRECS[pi]), vcls(IVALS[vi]));
    /* known root causes of the embedded engine, most specific first; anything else keeps the full feature class */
    if (WIDTHS[wi] >= 33 || PRECS[pi] >= 33) snprintf(c->rc, sizeof c->rc, "ntoa-buffer-of-32|%%%c", conv);
    else if (strchr(FLAGSETS[fi], '#')) snprintf(c->rc, sizeof c->rc, "hash-flag|%%%c", conv);
    else c->rc[0] = 0;
}

static const double FVALS[] = {0.0, -0.0, 0.5, 1.0, -1.0, 0.999999, 9.9999, 123.456, 1e-5, 1e9 - 1, 1e9 + 1, 12345678.9, 1e15, 1e300, 4.9e-324, 2.5, 3.5, 0.05, INFINITY, -INFINITY, NAN, 1e-10, 99.99, 1234.5678};
static const char *FCONV = "fFeEgG";
static long n_flt_cases(void) { return 6L * 2 * 8 * 5 * 5 * 24; }
static void flt_case(long k, fcase *c) {
    static const char *FFLAGS[] = {"", "-", "+", " ", "#", "0", "+0", "-+"}; static const int FW[] = {-1, 1, 12, 40, -2}; static const int FP[] = {-1, 0, 1, 6, 10};
    memset(c, 0, sizeof *c); c->strarg = -1; c->one_dir = 1;
    int vi = (int)(k % 24); k /= 24; int pi = (int)(k % 5); k /= 5; int wi = (int)(k % 5); k /= 5; int fi = (int)(k % 8); k /= 8; int L = (int)(k % 2); k /= 2; int ci = (int)(k % 6);
    put_dir(c->fmt, sizeof c->fmt, FFLAGS[fi], FW[wi], FP[pi], L ? "L" : "", FCONV[ci], c, 14, 3);
    c->is_float = 1; c->float_conv = FCONV[ci]; c->float_prec = FP[pi] < 0 ? 6 : FP[pi]; c->fval = FVALS[vi]; c->is_long = L; c->lval = (long double)FVALS[vi];
    if (L) add_x(c, (long double)FVALS[vi]); else add_f(c, FVALS[vi]);
    double v = FVALS[vi];
    snprintf(c->cls, sizeof c->cls, "%%%s%c|flags='%s'|%s|%s|%s", L ? "L" : "", FCONV[ci], FFLAGS[fi], wcls(FW[wi]), FP[pi] < 0 ? "p-none" : FP[pi] == 0 ? "p0" : "p>0",
             isnan(v) ? "nan" : isinf(v) ? "inf" : v == 0 ? "zero" : fabs(v) > 1e9 ? "abs>1e9" : fabs(v) < 1e-4 ? "tiny" : "normal");
    snprintf(c->rc, sizeof c->rc, "float|%%%s%c|%s", L ? "L" : "", FCONV[ci], isnan(v) ? "nan" : isinf(v) ? "inf" : v == 0 ? "zero" : fabs(v) > 1e9 ? "abs>1e9" : fabs(v) < 1e-4 ? "tiny" : "normal");
}

/* strings and characters; %s arguments live in the arena, exact-fit */
static uint8_t *g_strobj;
static const char *STRS[] = {"", "a", "hello", "0123456789abcdefghijklmnopqrstuvwxyzABCDEFGHIJKLMNOPQRSTUVWXYZ", "gr\xc3\xbc\xc3\x9f", "x y"};
static long n_str_cases(void) { return 6L * 3 * 5 * 6 + 4 * 3 * 4; }
static void str_case(long k, fcase *c) {
    static const int SW[] = {-1, 3, 12}; static const int SP[] = {-1, 0, 1, 3, 70}; static const char *SF[] = {"", "-", "0", "-0", " ", "#"};
    memset(c, 0, sizeof *c); c->strarg = -1; c->one_dir = 1;
    if (k < 6L * 3 * 5 * 6) {
        int si = (int)(k % 6); k /= 6; int pi = (int)(k % 5); k /= 5; int wi = (int)(k % 3); k /= 3; int fi = (int)(k % 6);
        const char *s = STRS[si]; size_t sl = strlen(s);
        /* "%.Ns" argument: an N-byte object without terminator when the string is at least N long */
        c->str_prec = SP[pi] >= 0 ? (size_t)SP[pi] : (size_t)-1; c->str_unterm = SP[pi] >= 0 && sl >= (size_t)SP[pi];     /* precision 0: a zero-byte object, nothing may be read */
        size_t objb = c->str_unterm ? (size_t)SP[pi] : sl + 1;
        g_strobj = place_end(1, objb); memcpy(g_strobj, s, objb <= sl ? objb : sl); if (!c->str_unterm) g_strobj[sl] = 0;
        c->str_len = c->str_unterm ? (size_t)SP[pi] : sl;
        put_dir(c->fmt, sizeof c->fmt, SF[fi], SW[wi], SP[pi], "", 's', c, 0, 0);
        c->strarg = c->na; add_g(c, (long long)(intptr_t)g_strobj);
        snprintf(c->cls, sizeof c->cls, "%%s|flags='%s'|%s|%s|%s", SF[fi], wcls(SW[wi]), SP[pi] < 0 ? "p-none" : "p-set", sl == 0 ? "empty" : sl > 20 ? "long" : (sl > 2 && (unsigned char)s[2] > 127) ? "utf8" : "short");
    } else {
        k -= 6L * 3 * 5 * 6; int ci = (int)(k % 4); k /= 4; int wi = (int)(k % 3); k /= 3; int fi = (int)(k % 4);
        static const int CV[] = {'A', 0, 0xE9, '%'}; static const char *CF[] = {"", "-", "0", "-0"};
        put_dir(c->fmt, sizeof c->fmt, CF[fi], SW[wi], -1, "", 'c', c, 0, 0); add_g(c, CV[ci]);
        snprintf(c->cls, sizeof c->cls, "%%c|flags='%s'|%s|%s", CF[fi], wcls(SW[wi]), CV[ci] == 0 ? "nul" : CV[ci] > 127 ? "highbit" : "ascii");
        if (CV[ci] == 0) c->invalid_arg = 2;   /* a NUL character inside a string result: comparison by length, see oracle */
    }
}

/* directives the lattices above do not contain: %ls (wide string through wcstombs), %lc, %b / %#b, %p */
static const wchar_t *WSTRS[] = {L"", L"a", L"hello", L"0123456789abcdefghijklmnopqrstuvwxyzABCD", L"grüß", L"€€€€€€€"};
#define N_HEXF (2L * 2 * 6 * 4 * 3 * 3)
static long n_spc_cases(void) { return 6L * 5 * 3 * 2 + 4 * 3 * 2 * 2 + 2 * 15 * 3 * 3 + 4 + 6 + 7 + N_HEXF; }
static void spc_case(long k, fcase *c) {
    static const int SW[] = {-1, 3, 12}; static const int SP[] = {-1, 0, 1, 3, 70}; static const char *SF[] = {"", "-"};
    memset(c, 0, sizeof *c); c->strarg = -1; c->one_dir = 1;
    if (k < 6L * 5 * 3 * 2) {
        int si = (int)(k % 6); k /= 6; int pi = (int)(k % 5); k /= 5; int wi = (int)(k % 3); k /= 3; int fi = (int)(k % 2);
        const wchar_t *ws = WSTRS[si]; size_t sl = wcslen(ws); c->utf8 = si >= 4;
        /* "%.Nls" of an ASCII wide string: N bytes are N elements, so an N-element object without terminator is a valid argument */
        int unterm = SP[pi] >= 0 && sl >= (size_t)SP[pi] && !c->utf8;
        size_t objel = unterm ? (size_t)SP[pi] : sl + 1;
        g_strobj = place_end(1, objel * sizeof(wchar_t)); memcpy(g_strobj, ws, (objel <= sl ? objel : sl) * sizeof(wchar_t)); if (!unterm) ((wchar_t *)g_strobj)[sl] = 0;
        c->str_unterm = unterm; c->str_prec = SP[pi] >= 0 ? (size_t)SP[pi] : (size_t)-1; c->str_len = unterm ? (size_t)SP[pi] : sl;
        put_dir(c->fmt, sizeof c->fmt, SF[fi], SW[wi], SP[pi], "l", 's', c, 0, 0);
        c->strarg = c->na; add_g(c, (long long)(intptr_t)g_strobj);
        snprintf(c->cls, sizeof c->cls, "%%ls|flags='%s'|%s|%s|%s", SF[fi], wcls(SW[wi]), SP[pi] < 0 ? "p-none" : SP[pi] == 0 ? "p0" : "p-set", sl == 0 ? "empty" : c->utf8 ? "non-ascii" : sl > 20 ? "long" : "short");
        snprintf(c->rc, sizeof c->rc, "%%ls|%s|%s", c->utf8 ? "non-ascii" : "ascii", SP[pi] < 0 ? "p-none" : SP[pi] == 0 ? "p0" : "p-set");
        return;
    }
    k -= 6L * 5 * 3 * 2;
    if (k < 4 * 3 * 2 * 2) {
        static const int CV[] = {'A', 'z', 0xE9, 0x20AC};
        int ci = (int)(k % 4); k /= 4; int wi = (int)(k % 3); k /= 3; int fi = (int)(k % 2); k /= 2; int ctx = (int)(k % 2);
        if (ctx) sb_add(c->fmt, sizeof c->fmt, "ab");
        put_dir(c->fmt, sizeof c->fmt, SF[fi], SW[wi], -1, "l", 'c', c, 0, 0); add_g(c, CV[ci]);
        if (ctx) { sb_add(c->fmt, sizeof c->fmt, "cd"); c->one_dir = 0; }
        c->utf8 = CV[ci] > 127;
        snprintf(c->cls, sizeof c->cls, "%%lc|flags='%s'|%s|%s|%s", SF[fi], wcls(SW[wi]), CV[ci] > 127 ? "non-ascii" : "ascii", ctx ? "inside-text" : "alone");
        snprintf(c->rc, sizeof c->rc, "%%lc|%s|%s", CV[ci] > 127 ? "non-ascii" : "ascii", ctx ? "inside-text" : "alone");
        return;
    }
    k -= 4 * 3 * 2 * 2;
    if (k < 2 * 15 * 3 * 3) {
        static const char *BF[] = {"", "#", "#0"}; static const int BW[] = {-1, 5, 40}; static const char *BL[] = {"", "ll"};
        int li = (int)(k % 2); k /= 2; int vi = (int)(k % 15); k /= 15; int wi = (int)(k % 3); k /= 3; int fi = (int)(k % 3);
        long long v = li ? IVALS[vi] : (long long)(unsigned int)IVALS[vi];
        put_dir(c->fmt, sizeof c->fmt, BF[fi], BW[wi], -1, BL[li], 'b', c, 0, 0); add_g(c, v);
        snprintf(c->cls, sizeof c->cls, "%%%sb|flags='%s'|%s|%s", BL[li], BF[fi], wcls(BW[wi]), vcls(IVALS[vi]));
        snprintf(c->rc, sizeof c->rc, "%%b|flags='%s'", BF[fi]);
        return;
    }
    k -= 2 * 15 * 3 * 3;
    if (k >= 17) {  /* %a / %A (hexadecimal floating point), double and long double: the C library's text exactly */
        static const double HV[] = {1.0, -0.5, 0.1, 1e300, 0.0, 123456.789}; static const int HW[] = {-1, 12, 70, -2}; static const int HP[] = {-1, 0, 3}; static const char *HF[] = {"", "-", "+0"};
        k -= 17; int ci = (int)(k % 2); k /= 2; int L = (int)(k % 2); k /= 2; int vi = (int)(k % 6); k /= 6; int wi = (int)(k % 4); k /= 4; int pi = (int)(k % 3); k /= 3; int fi = (int)(k % 3);
        put_dir(c->fmt, sizeof c->fmt, HF[fi], HW[wi], HP[pi], L ? "L" : "", ci ? 'A' : 'a', c, 30, 3);
        if (L) add_x(c, (long double)HV[vi]); else add_f(c, HV[vi]);
        snprintf(c->cls, sizeof c->cls, "%%%s%c|flags='%s'|%s|%s|%s", L ? "L" : "", ci ? 'A' : 'a', HF[fi], wcls(HW[wi]), pcls(HP[pi]), HV[vi] == 0 ? "zero" : fabs(HV[vi]) > 1e9 ? "abs>1e9" : "normal");
        snprintf(c->rc, sizeof c->rc, "hexfloat|%%%s%c|%s", L ? "L" : "", ci ? 'A' : 'a', wcls(HW[wi]));
        return;
    }
    if (k >= 10) {  /* directives the standard leaves undefined or that cannot succeed: the library may fail, but then as any failed call (terminated, empty, reported once) */
        static const char *UF[] = {"%Ld", "%Li", "%Lu", "x%Lxy", "%2147483615d", "a%2147483640sb", "%.2147483640d"}; k -= 10;
        snprintf(c->fmt, sizeof c->fmt, "%s", UF[k]); if (k == 5) add_g(c, (long long)(intptr_t)"s"); else add_g(c, 5);
        c->one_dir = 0; c->ref_fails = 2; snprintf(c->cls, sizeof c->cls, "may-fail|%s", k < 4 ? "L-with-integer" : "huge-width-or-precision"); snprintf(c->rc, sizeof c->rc, "%s", c->cls);
        return;
    }
    if (k >= 4) {   /* wide arguments the "C" locale cannot represent: C printf fails, so must the library, and nothing may stay in dest */
        static const wchar_t bad[] = L"ab\x100" L"cd"; k -= 4; int ctx = (int)(k % 3), islc = (int)(k / 3);
        static const char *CT[] = {"%s", "x=%s;", "%%d %s"}; char dir[8]; snprintf(dir, sizeof dir, islc ? "%%lc" : "%%ls");
        if (ctx == 2) add_g(c, 7);
        snprintf(c->fmt, sizeof c->fmt, CT[ctx], dir); c->one_dir = ctx == 0;
        if (islc) add_g(c, 0x100); else { g_strobj = place_end(1, sizeof bad); memcpy(g_strobj, bad, sizeof bad); c->strarg = c->na; add_g(c, (long long)(intptr_t)g_strobj); c->str_len = 5; c->str_prec = (size_t)-1; }
        snprintf(c->cls, sizeof c->cls, "%s|not-representable|%s", dir, ctx == 0 ? "alone" : ctx == 1 ? "inside-text" : "after-%d"); snprintf(c->rc, sizeof c->rc, "%s|not-representable", dir);
        return;
    }
    {   static int obj; void *pv[] = {&obj, NULL, (void *)(uintptr_t)0xffffffffffffffffull, (void *)(uintptr_t)0x1000};
        if (k & 1) { sb_add(c->fmt, sizeof c->fmt, "at %%p!"); c->one_dir = 0; } else sb_add(c->fmt, sizeof c->fmt, "%%p");
        add_g(c, (long long)(intptr_t)pv[k]);
        snprintf(c->reffmt, sizeof c->reffmt, (k & 1) ? "at %%0%dllX!" : "%%0%dllX", (int)(2 * sizeof(void *)));
        snprintf(c->cls, sizeof c->cls, "%%p|%s", k == 1 ? "null" : "non-null"); snprintf(c->rc, sizeof c->rc, "%%p");
    }
}

/* random multi-directive formats with literal text and escaped percent signs */
static void rnd_case(uint64_t seed, fcase *c, int with_n) {
    rng_t g = rng_from(seed, 11, 3); memset(c, 0, sizeof *c); c->strarg = -1;
    int nd = 1 + (int)rnd_n(&g, 4); int npos = with_n ? (int)rnd_n(&g, (uint64_t)nd) : -1;
    static const char *LIT[] = {"", "x", " = ", "%%", "100%%", "a%%b", "%%%%", "\t", "n", "%%n"};
    snprintf(c->cls, sizeof c->cls, with_n ? "%%n-format" : "multi");
    for (int d = 0; d < nd; d++) {
        sb_add(c->fmt, sizeof c->fmt, "%s", LIT[rnd_n(&g, 10)]);
        if (c->na >= 3) break;
        if (d == npos) {   /* a %n-type directive: flags / width / length modifiers in every spelling */
            static const char *NL[] = {"", "hh", "h", "l", "ll", "z", "j", "t"}; static const char *NF[] = {"", "-", "0", "+", " ", "#"};
            int w = (int)rnd_n(&g, 3); char wbuf[8] = ""; if (w == 1) snprintf(wbuf, sizeof wbuf, "%d", 1 + (int)rnd_n(&g, 9)); else if (w == 2 && c->na < 2) { snprintf(wbuf, sizeof wbuf, "*"); add_g(c, 4); }
            sb_add(c->fmt, sizeof c->fmt, "%%%s%s%s%sn", NF[rnd_n(&g, 6)], wbuf, rnd_n(&g, 4) == 0 ? ".3" : "", NL[rnd_n(&g, 8)]);
            c->n_argpos[c->n_cnt] = c->na; SENT[c->n_cnt] = POISON; add_g(c, (long long)(intptr_t)&SENT[c->n_cnt]); c->n_cnt++; c->has_n = 1;
            continue;
        }
        int kind = (int)rnd_n(&g, 10);
        if (kind < 6) { int ci = (int)rnd_n(&g, 6), li = (int)rnd_n(&g, 8); long long v = fit_len(IVALS[rnd_n(&g, 15)], LENS[li], INT_CONV[ci]);
            int wi = (int)rnd_n(&g, 5), pi = (int)rnd_n(&g, 6), fi = (int)rnd_n(&g, 14); put_dir(c->fmt, sizeof c->fmt, FLAGSETS[fi], WIDTHS[wi], PRECS[pi], LENS[li], INT_CONV[ci], c, 0, 0); add_g(c, v);
            if (WIDTHS[wi] >= 33 || PRECS[pi] >= 33) snprintf(c->rc, sizeof c->rc, "ntoa-buffer-of-32|multi"); else if (strchr(FLAGSETS[fi], '#') && !c->rc[0]) snprintf(c->rc, sizeof c->rc, "hash-flag|multi"); }
        else if (kind < 8) { put_dir(c->fmt, sizeof c->fmt, "", -1, -1, "", 'c', c, 0, 0); add_g(c, 'a' + (int)rnd_n(&g, 26)); }
        else { static const char *SS[] = {"", "ab", "hello world"}; put_dir(c->fmt, sizeof c->fmt, rnd_n(&g, 2) ? "-" : "", rnd_n(&g, 2) ? 6 : -1, -1, "", 's', c, 0, 0); add_g(c, (long long)(intptr_t)SS[rnd_n(&g, 3)]); }
    }
    sb_add(c->fmt, sizeof c->fmt, "%s", LIT[rnd_n(&g, 10)]);
    if (c->na > 4) c->na = 4;
}

/* ------------------------------------------------------------------ execution */
enum { K_CASES, K_CALLS, K_C11, K_C09, K_C09N, K_STREAM, K_FENCE, K_DEATH, K_NUM };
static const char *KN[] = {"cases", "calls", "c11_decided", "c09_decided", "c09_n_formats", "stream_comparisons", "fence_faults", "worker_deaths"};
static unsigned long long K[K_NUM];
static char g_wit[1400]; static int g_samples;
static FILE *g_tmp; static int g_stdout_fd = -1; static FILE *g_stdout_tmp;

static void wit(const fcase *c, int t, long idx, size_t dmax, const char *obs) {
    char ef[400] = ""; for (const char *p = c->fmt; *p && strlen(ef) < 380; p++) { if (*p == '"' || *p == '\\') sb_add(ef, sizeof ef, "\\%c", *p); else if ((unsigned char)*p < 32 || (unsigned char)*p > 126) sb_add(ef, sizeof ef, "\\\\x%02x", (unsigned char)*p); else sb_add(ef, sizeof ef, "%c", *p); }
    char eo[500] = ""; for (const char *p = obs; *p && strlen(eo) < 480; p++) { if (*p == '"' || *p == '\\') sb_add(eo, sizeof eo, "\\%c", *p); else if ((unsigned char)*p < 32 || (unsigned char)*p > 126) sb_add(eo, sizeof eo, "?"); else sb_add(eo, sizeof eo, "%c", *p); }
    snprintf(g_wit, sizeof g_wit, "{\"harness\":\"fmt\",\"cfg\":\"%s\",\"fn\":\"%s\",\"idx\":%ld,\"seed\":%llu,\"format\":\"%s\",\"nargs\":%d,\"arg0\":\"%lld/%g/%Lg\",\"dmax\":%zu,\"obs\":\"%s\",\"replay\":\"fmt --cfg %s --idx %ld --seed %llu --tier %s\"}",
             g_cfg, t >= 0 ? TN[t] : "-", idx, (unsigned long long)g_seed, ef, c->na, c->a[c->na ? c->na - 1 : 0].g, c->a[c->na ? c->na - 1 : 0].f, c->a[c->na ? c->na - 1 : 0].x, dmax, eo, g_cfg, idx, (unsigned long long)g_seed, g_tier ? "thorough" : "quick");
}
static void vio(const char *prop, const fcase *c, int t, long idx, size_t dmax, const char *rule, const char *det, const char *obs) {
    char key[360], what[700];
    if (!want(prop)) return;
    snprintf(key, sizeof key, "%s|%s|%s", TN[t], rule, det);
    snprintf(what, sizeof what, "%s(\"%.100s\"): %s: %s", TN[t], c->fmt, rule, obs);
    wit(c, t, idx, dmax, obs); report(prop, key, what, g_wit);
}

static void vio(const char *prop, const fcase *c, int t, long idx, size_t dmax, const char *rule, const char *det, const char *obs);
/* text deviations: keyed by the engine's root-cause class where one is known (the eight entry points share one
   formatting engine), by the full feature class of the directive otherwise */
static void text_vio(const fcase *c, int t, long idx, size_t dmax, const char *why, const char *obs) {
    char det[200], kind[48] = "";
    if (c->is_float) {
        const char *k = strstr(why, "exponent layout") ? "f-in-exponent-layout" : strstr(why, "not a number") ? "not-a-number-in-layout" : strstr(why, "digits after") ? "digit-count" :
                        strstr(why, "differs from the argument") ? "value-off" : strstr(why, "padding") ? "padding" : strstr(why, "non-finite") ? "non-finite" : "other";
        snprintf(kind, sizeof kind, "%s", k);
        snprintf(det, sizeof det, "engine|%s|%s", c->rc, kind);
    } else if (c->rc[0]) snprintf(det, sizeof det, "engine|%s", c->rc);
    else snprintf(det, sizeof det, "%s|%s", TN[t], c->cls);
    char key[360], what[700];
    if (!want("C11")) return;
    snprintf(key, sizeof key, "%s|%s", c->is_float ? "float-text-wrong" : "text-differs-from-printf", det);
    snprintf(what, sizeof what, "%s(\"%.100s\"): %s", TN[t], c->fmt, obs);
    wit(c, t, idx, dmax, obs); report("C11", key, what, g_wit);
}

/* float oracle: layout of the requested conversion and value within one unit of the last printed digit */
static int float_ok(const fcase *c, const char *txt, const char *ref, char *why, size_t cap) {
    if (!strcmp(txt, ref)) return 1;
    double v = c->fval; const char *p = txt; while (*p == ' ') p++;
    if (isnan(v) || isinf(v)) { snprintf(why, cap, "non-finite value rendered differently from libc"); return 0; }
    char *end; errno = 0; long double got = strtold(p, &end);
    while (*end == ' ') end++;
    if (end == p || *end) { snprintf(why, cap, "text is not a number in the requested layout"); return 0; }
    int conv = c->float_conv | 0x20;
    int has_e = strchr(p, 'e') || strchr(p, 'E');
    if (conv == 'f' && has_e) { snprintf(why, cap, "%%f rendered in exponent layout"); return 0; }
    if (conv == 'e' && !has_e) { snprintf(why, cap, "%%e rendered without exponent"); return 0; }
    /* digits after the point */
    const char *dot = strchr(p, '.'); int nd = 0; if (dot) { const char *q = dot + 1; while (*q >= '0' && *q <= '9') { nd++; q++; } }
    if (conv != 'g' && nd != c->float_prec && !(c->float_prec == 0 && !dot)) { snprintf(why, cap, "%d digits after the point, precision asks for %d", nd, c->float_prec); return 0; }
    long double unit;
    if (conv == 'f') unit = powl(10.0L, -(long double)nd);
    else { long double a = fabsl((long double)v); int ex = a > 0 ? (int)floorl(log10l(a)) : 0; unit = powl(10.0L, (long double)(ex - (conv == 'e' ? nd : (c->float_prec ? c->float_prec - 1 : 0)))); }
    if (fabsl(got - (long double)v) > unit * 1.0000001L) { snprintf(why, cap, "value %Lg differs from the argument %g by more than one unit of the last digit (%Lg)", got, v, unit); return 0; }
    if (strlen(txt) != strlen(ref) && strlen(txt) < strlen(ref) && (ref[0] == ' ' || ref[strlen(ref) - 1] == ' ' || ref[0] == '0')) { snprintf(why, cap, "field width / padding differs from libc"); return 0; }
    return 1;
}

static void run_case(fcase *c, long idx) {
    char ref[600], obs[420], buf2[600]; int reflen;
    K[K_CASES]++;
    /* ---- reference text from libc */
    if (c->utf8) setlocale(LC_ALL, "C.UTF-8");
    if (c->ref_fails == 2) { reflen = 24; ref[0] = 0; }
    else if (!c->has_n) { P_dest = ref; P_n = sizeof ref; P_fmt = c->reffmt[0] ? c->reffmt : c->fmt; call_target(99, c->a, c->na, c->code); reflen = P_ret; if (c->ref_fails == 2) { reflen = 24; ref[0] = 0; } else if (reflen < 0 && strstr(c->cls, "not-representable")) { c->ref_fails = 1; reflen = 24; ref[0] = 0; } else if (reflen < 0 || reflen >= (int)sizeof ref) { if (c->utf8) setlocale(LC_ALL, "C"); return; } }
    else { reflen = 8; ref[0] = 0; }
    size_t need = (size_t)reflen + 1;
    /* ---- buffer targets over a dmax sweep */
    size_t dm[5] = {need, need > 1 ? need - 1 : 0, need + 2, 1, need > 3 ? need / 2 : 0}; int ndm = g_tier ? 5 : 3;
    for (int t = 0; t < 4; t++) for (int di = 0; di < ndm; di++) {
        size_t dmax = dm[di]; if (dmax == 0 || dmax > 2000) continue;
        if (di && !g_tier && (idx + t) % 2) continue;
        int fits = need <= dmax;
        uint8_t *dest = place_end(0, dmax); memset(dest - 32, CANARY, 32); for (size_t i = 0; i < dmax; i++) dest[i] = (uint8_t)(0x61 + i % 26);
        for (int i = 0; i < c->n_cnt; i++) SENT[i] = POISON;
        probes_reset(); P_dest = (char *)dest; P_n = dmax; P_b = (idx & 1) ? dmax : BOS_UNKNOWN; P_fmt = c->fmt; P_ret = -99999;
        g_shm->in_call = 1; g_cur_fn = TN[t]; FENCED(call_target(t, c->a, c->na, c->code)); g_shm->in_call = 0;
        K[K_CALLS]++;
        int ret = P_ret, hc = g_h.count;
        const char *fitc = fits ? (need == dmax ? "exact-fit" : "fits") : "does-not-fit";
        if (g_fence.faulted) {
            K[K_FENCE]++;
            int atstr = c->strarg >= 0 && g_fence.addr >= (uintptr_t)g_strobj && g_fence.addr < (uintptr_t)slot_end(1) + PAGE;
            snprintf(obs, sizeof obs, "%s fault %s (dmax %zu, needed %zu)", g_fence.is_write ? "WRITE" : "READ", atstr ? "just past the %s argument" : g_fence.addr >= (uintptr_t)dest + dmax ? "past dest+dmax" : "elsewhere", dmax, need);
            vio(g_fence.is_write ? "C01" : "C02", c, t, idx, dmax, g_fence.is_write ? "W-fault" : "R-fault", atstr ? (c->str_unterm ? "%.Ns-argument-read-past-N" : "%s-argument") : c->cls, obs);
            continue;
        }
        for (int i = 0; i < 32; i++) if (dest[-32 + i] != CANARY) { vio("C01", c, t, idx, dmax, "write-before-dest", c->one_dir ? c->cls : "multi", "canary in front of dest changed"); break; }
        /* ---- C09 */
        if (c->has_n) {
            K[K_C09]++; if (t == 0 && di == 0) K[K_C09N]++;
            if (!strcmp(g_prop, "C09") || !strcmp(g_prop, "ALL")) { char b[260]; snprintf(b, sizeof b, "n;%s;%.200s", TN[t], c->fmt); distinct_add(hash_str(b)); }
            int stored = 0; for (int i = 0; i < c->n_cnt; i++) if (SENT[i] != POISON) stored = 1;
            if (stored) { snprintf(obs, sizeof obs, "the %%n target was written (sentinel %#llx)", (unsigned long long)SENT[0]); vio("C09", c, t, idx, dmax, "n-directive-executed", "stored-through-argument", obs); }
            if (ret >= 0 || hc == 0) { snprintf(obs, sizeof obs, "returned %d with %d handler invocations for a format containing a %%n directive", ret, hc); vio("C09", c, t, idx, dmax, "n-format-not-rejected", ret >= 0 ? "success-returned" : "no-handler", obs); }
            continue;
        }
        /* ---- C05 self-consistency */
        if (hc > 1) { snprintf(obs, sizeof obs, "%d handler invocations (%s, %s), ret %d", hc, errname(g_h.code[0]), errname(g_h.code[1]), ret); vio("C05", c, t, idx, dmax, "R1-handler-invoked-more-than-once", fitc, obs); }
        else if (hc == 1 && ret != -g_h.code[0]) { snprintf(obs, sizeof obs, "handler got %s, call returned %d", errname(g_h.code[0]), ret); char dd[60]; snprintf(dd, sizeof dd, "handler=%s,returned=%d", errname(g_h.code[0]), ret); vio("C05", c, t, idx, dmax, "R2-handler-code-differs-from-returned-code", dd, obs); }
        else if (hc == 0 && ret < 0) { snprintf(obs, sizeof obs, "returned %d (%s) without invoking the handler", ret, errname(-ret)); vio("C05", c, t, idx, dmax, "R3-failure-returned-without-handler", fitc, obs); }
        /* ---- C03 / C04 / C08 */
        size_t dl = strnlen((char *)dest, dmax);
        if (dl == dmax) { snprintf(obs, sizeof obs, "no NUL in dest[0..%zu) after return %d", dmax, ret); vio("C03", c, t, idx, dmax, "unterminated-dest", fitc, obs); }
        if (ret < 0 || hc > 0) {   /* a reported violation is a failed call whatever number comes back */
            if (dest[0]) { snprintf(obs, sizeof obs, "returned %d but dest[0]=%#x", ret, dest[0]); vio("C04", c, t, idx, dmax, "dest[0]-not-zero", ret < 0 ? errname(-ret) : "handler-invoked-but-count-returned", obs); }
            else for (size_t i = 0; i < dmax; i++) if (dest[i] && (g_noslack ? dest[i] != (uint8_t)(0x61 + i % 26) : 1)) { snprintf(obs, sizeof obs, "returned %d but dest[%zu]=%#x holds formatted output", ret, i, dest[i]); vio("C04", c, t, idx, dmax, g_noslack ? "partial-result-visible" : "not-all-zero-after-failure", errname(-ret), obs); break; }
        } else if (!g_noslack && dl < dmax) {
            /* a NUL printed through %c is part of the text: the slack starts behind the returned count */
            if (c->invalid_arg == 2 && (size_t)ret > dl) dl = (size_t)ret < dmax ? (size_t)ret : dmax;
            for (size_t i = dl; i < dmax; i++) if (dest[i]) { snprintf(obs, sizeof obs, "ret %d, text length %zu, dest[%zu]=%#x", ret, dl, i, dest[i]); vio("C08", c, t, idx, dmax, "stale-data-behind-terminator", fitc, obs); break; }
        }
        /* ---- C11 */
        K[K_C11]++;
        if (strcmp(g_prop, "C09")) { char b[200]; snprintf(b, sizeof b, "%s;%s;%s;%d", TN[t], c->cls, fitc, ret < 0 ? -1 : 0); distinct_add(hash_str(b)); }
        if (c->ref_fails == 2) continue;
        if (c->ref_fails) { if (ret >= 0) { snprintf(obs, sizeof obs, "returned %d and stored '%.40s' although the wide argument has no representation in the locale (C printf fails)", ret, (char *)dest); vio("C11", c, t, idx, dmax, "succeeds-although-printf-fails", c->rc, obs); } continue; }
        if (c->invalid_arg == 2) { if (ret >= 0 && ret != reflen && fits) { snprintf(obs, sizeof obs, "returned %d, libc counts %d", ret, reflen); vio("C11", c, t, idx, dmax, "count-differs", c->cls, obs); } continue; }
        if (fits) {
            if (ret < 0) { snprintf(obs, sizeof obs, "failed with %s although libc's text '%.60s' (%d chars) fits in dmax=%zu", errname(-ret), ref, reflen, dmax); vio("C11", c, t, idx, dmax, "fails-although-text-fits", c->rc[0] ? c->rc : c->cls, obs); }
            else {
                int same = !strcmp((char *)dest, ref); char why[200] = "";
                if (!same && c->is_float && float_ok(c, (char *)dest, ref, why, sizeof why)) same = 1;
                if (!same) { snprintf(obs, sizeof obs, "stored '%.80s', C printf gives '%.80s'%s%s", (char *)dest, ref, why[0] ? "; " : "", why); text_vio(c, t, idx, dmax, why, obs); }
                else if (ret != (int)strlen((char *)dest)) { snprintf(obs, sizeof obs, "returned %d but stored %zu characters ('%.60s')", ret, strlen((char *)dest), (char *)dest); vio("C11", c, t, idx, dmax, "returned-count-differs-from-stored", fitc, obs); }
            }
        } else {
            /* a count that does not leave room for the terminator can never be a success of the non-truncating functions, whatever the engine's own rendering is */
            if (ret >= (int)dmax && !T_TRUNC[t]) { snprintf(obs, sizeof obs, "dmax=%zu, yet returned %d (stored %zu characters: '%.50s')", dmax, ret, strnlen((char *)dest, dmax), (char *)dest); vio("C11", c, t, idx, dmax, "success-with-count-not-below-dmax", c->one_dir ? "one-directive" : "multi", obs); }
            else if (ret >= 0 && !T_TRUNC[t]) { snprintf(obs, sizeof obs, "text needs %zu bytes, dmax=%zu, yet returned %d and stored '%.60s'", need, dmax, ret, (char *)dest); vio("C11", c, t, idx, dmax, "success-although-text-does-not-fit", c->one_dir ? "one-directive" : "multi", obs); }
        }
    }
    /* ---- stream targets: same characters as libc / as the buffer variant */
    if (!(c->ref_fails == 2 && strstr(c->cls, "huge"))) for (int t = T_FPRINTF; t < T_NUM; t++) {   /* (no gigabytes of padding into a temporary file) */
        if (!g_tier && (idx + t) % 3) continue;
        FILE *f = (t == T_PRINTF || t == T_VPRINTF) ? g_stdout_tmp : g_tmp;
        int fd = fileno(f); fflush(f); if (ftruncate(fd, 0)) {} rewind(f);
        for (int i = 0; i < c->n_cnt; i++) SENT[i] = POISON;
        probes_reset(); P_stream = g_tmp; P_fmt = c->fmt; P_ret = -99999;
        g_shm->in_call = 1; g_cur_fn = TN[t]; FENCED(call_target(t, c->a, c->na, c->code)); g_shm->in_call = 0;
        K[K_CALLS]++;
        if (g_fence.faulted) { snprintf(obs, sizeof obs, "%s fault", g_fence.is_write ? "WRITE" : "READ"); vio(g_fence.is_write ? "C01" : "C02", c, t, idx, 0, g_fence.is_write ? "W-fault" : "R-fault", c->strarg >= 0 ? (c->str_unterm ? "%.Ns-argument-read-past-N" : "%s-argument") : c->cls, obs); if (t == T_PRINTF || t == T_VPRINTF) fflush(stdout); continue; }
        if (t == T_PRINTF || t == T_VPRINTF) fflush(stdout); else fflush(g_tmp);
        int ret = P_ret; size_t n = 0; { lseek(fd, 0, SEEK_SET); ssize_t r = read(fd, buf2, sizeof buf2 - 1); n = r > 0 ? (size_t)r : 0; buf2[n] = 0; }
        if (c->has_n) {
            K[K_C09]++; int stored = 0; for (int i = 0; i < c->n_cnt; i++) if (SENT[i] != POISON) stored = 1;
            if (stored) { snprintf(obs, sizeof obs, "the %%n target was written (sentinel %#llx)", (unsigned long long)SENT[0]); vio("C09", c, t, idx, 0, "n-directive-executed", "stored-through-argument", obs); }
            if (ret >= 0 || g_h.count == 0) { snprintf(obs, sizeof obs, "returned %d with %d handler invocations for a format containing a %%n directive", ret, g_h.count); vio("C09", c, t, idx, 0, "n-format-not-rejected", ret >= 0 ? "success-returned" : "no-handler", obs); }
            continue;
        }
        K[K_STREAM]++; K[K_C11]++;
        if (c->invalid_arg == 2) continue;
        if (c->ref_fails == 2) continue;
        if (c->ref_fails) { if (ret >= 0) { snprintf(obs, sizeof obs, "returned %d although the wide argument has no representation in the locale", ret); vio("C11", c, t, idx, 0, "succeeds-although-printf-fails", c->rc, obs); } continue; }
        if (ret < 0) { snprintf(obs, sizeof obs, "failed with %d although every argument is valid", ret); vio("C11", c, t, idx, 0, "stream-variant-fails", c->rc[0] ? c->rc : c->cls, obs); }
        else { int same = (n == (size_t)reflen && !memcmp(buf2, ref, n)); char why[200] = "";
            if (!same && c->is_float && n < sizeof buf2 && float_ok(c, buf2, ref, why, sizeof why)) same = 1;
            if (!same) { snprintf(obs, sizeof obs, "emitted '%.80s' (%zu bytes), C printf gives '%.80s'", buf2, n, ref); text_vio(c, t, idx, 0, why, obs); }
            else if (ret != (int)n) { snprintf(obs, sizeof obs, "returned %d but emitted %zu bytes", ret, n); vio("C11", c, t, idx, 0, "returned-count-differs-from-emitted", c->rc[0] ? c->rc : c->cls, obs); } }
    }
    if (c->utf8) setlocale(LC_ALL, "C");
    if (g_verbose) { wit(c, -1, idx, 0, ref); fprintf(g_out, "%s\n", g_wit); }
    if (g_samples < 6 && idx % 2003 == (long)(g_seed % 2003)) { wit(c, -1, idx, 0, ref); emit_sample(g_wit); g_samples++; }
}

static void gen(void) {
    long idx = 0; fcase c;
    long ni = n_int_cases(), nf = n_flt_cases(), ns = n_str_cases(); long stride_i = g_tier ? 1 : 23, stride_f = g_tier ? 1 : 7;
    for (long k = 0; k < ni; k += 1) { long my = idx++; if (!g_tier && (my % stride_i) != (long)(g_seed % stride_i)) continue; if (g_only_idx >= 0 ? my != g_only_idx : (my % g_nw != g_wid || my < g_skip_below)) continue; int_case(k, &c); g_shm->cur = my; run_case(&c, my); }
    for (long k = 0; k < nf; k++) { long my = idx++; if (!g_tier && (my % stride_f) != (long)(g_seed % stride_f)) continue; if (g_only_idx >= 0 ? my != g_only_idx : (my % g_nw != g_wid || my < g_skip_below)) continue; flt_case(k, &c); g_shm->cur = my; run_case(&c, my); }
    for (long k = 0; k < ns; k++) { long my = idx++; if (g_only_idx >= 0 ? my != g_only_idx : (my % g_nw != g_wid || my < g_skip_below)) continue; str_case(k, &c); g_shm->cur = my; run_case(&c, my); }
    for (long k = 0; k < n_spc_cases(); k++) { long my = idx++; if (g_only_idx >= 0 ? my != g_only_idx : (my % g_nw != g_wid || my < g_skip_below)) continue; spc_case(k, &c); g_shm->cur = my; run_case(&c, my); }
    long nr = g_tier ? 60000 : 6000;
    for (long k = 0; k < nr; k++) { long my = idx++; if (g_only_idx >= 0 ? my != g_only_idx : (my % g_nw != g_wid || my < g_skip_below)) continue; rnd_case(g_seed * 1000003ull + (uint64_t)k, &c, (k % 3) == 0); g_shm->cur = my; run_case(&c, my); }
    /* history independence: re-issue recorded calls after unrelated calls and compare bytes */
    {   char first[300], again[300]; fcase c2; long nh = g_tier ? 4000 : 500;
        for (long k = 0; k < nh; k++) { long my = idx++; if (g_only_idx >= 0 ? my != g_only_idx : (my % g_nw != g_wid || my < g_skip_below)) continue;
            rng_t g = rng_from(g_seed, 77, (uint64_t)k); long pick_ = (long)rnd_n(&g, (uint64_t)nf); flt_case(pick_, &c);
            P_dest = first; P_n = sizeof first; P_b = sizeof first; P_fmt = c.fmt; call_target(T_SPRINTF, c.a, c.na, c.code); int r1 = P_ret;
            for (int j = 0; j < 3; j++) { if (rnd_n(&g, 2)) flt_case((long)rnd_n(&g, (uint64_t)nf), &c2); else int_case((long)rnd_n(&g, (uint64_t)ni), &c2); char scratch[300]; P_dest = scratch; P_n = sizeof scratch; P_b = sizeof scratch; P_fmt = c2.fmt; call_target(T_SNPRINTF, c2.a, c2.na, c2.code); }
            P_dest = again; P_n = sizeof again; P_b = sizeof again; P_fmt = c.fmt; call_target(T_SPRINTF, c.a, c.na, c.code); int r2 = P_ret; K[K_C11]++;
            if (r1 != r2 || (r1 >= 0 && strcmp(first, again))) { char obs[300]; snprintf(obs, sizeof obs, "first call gave %d '%.60s', the same call after unrelated calls gave %d '%.60s'", r1, first, r2, again); vio("C11", &c, T_SPRINTF, my, 300, "text-depends-on-earlier-calls", c.rc[0] ? c.rc : c.cls, obs); }
        } }
}
static void body(void *a, long lo, long hi) { (void)a; (void)hi; g_skip_below = lo; gen(); for (int i = 0; i < K_NUM; i++) __sync_fetch_and_add(&CTR(i), K[i]); __sync_fetch_and_add(&CTR(60), g_fp_checks); distinct_emit(); }
static void on_death(void *a, long idx, int status, int hung) {
    (void)a; char key[200], what[300], w[300]; CTR(K_DEATH)++;
    if (!g_shm->in_call) { fprintf(g_out, "{\"t\":\"harness_error\",\"idx\":%ld,\"status\":%d}\n", idx, status); fflush(g_out); return; }
    snprintf(key, sizeof key, "printf-family|worker-%s|%s", hung ? "hang" : "death", hung ? "watchdog" : WIFSIGNALED(status) ? strsignal(WTERMSIG(status)) : "exit");
    snprintf(what, sizeof what, "process %s in format case %ld (status %#x)", hung ? "hung" : "died", idx, status);
    snprintf(w, sizeof w, "{\"harness\":\"fmt\",\"cfg\":\"%s\",\"idx\":%ld,\"replay\":\"fmt --cfg %s --idx %ld --seed %llu --tier %s\"}", g_cfg, idx, g_cfg, idx, (unsigned long long)g_seed, g_tier ? "thorough" : "quick");
    report(want("C01") ? "C01" : want("C02") ? "C02" : g_prop, key, what, w);
}
int main(int argc, char **argv) {
    /* the record stream keeps the original stdout; fd 1 is redirected to a temporary file for printf_s / vprintf_s */
    g_out = fdopen(dup(1), "w");
    for (int i = 1; i < argc; i++) {
        if (!strcmp(argv[i], "--prop")) g_prop = argv[++i];
        else if (!strcmp(argv[i], "--tier")) g_tier = !strcmp(argv[++i], "thorough");
        else if (!strcmp(argv[i], "--seed")) g_seed = strtoull(argv[++i], NULL, 10);
        else if (!strcmp(argv[i], "--worker")) sscanf(argv[++i], "%d/%d", &g_wid, &g_nw);
        else if (!strcmp(argv[i], "--cfg")) { g_cfg = argv[++i]; g_noslack = !strcmp(g_cfg, "noslack"); }
        else if (!strcmp(argv[i], "--idx")) g_only_idx = atol(argv[++i]);
        else if (!strcmp(argv[i], "--verbose")) g_verbose = 1;
        else { fprintf(stderr, "unknown arg %s\n", argv[i]); return 2; }
    }
    setlocale(LC_ALL, "C");
    g_tmp = tmpfile(); g_stdout_tmp = tmpfile();
    if (!g_tmp || !g_stdout_tmp) { fprintf(g_out, "{\"t\":\"harness_error\",\"why\":\"tmpfile\"}\n"); return 2; }
    if (g_verbose) { /* keep verbose text on the record stream */ }
    dup2(fileno(g_stdout_tmp), 1);
    if (g_verbose) { /* printf in verbose mode goes to the temporary file; use the record stream instead */ }
    arena_init(); fence_init(); shm_init(); probes_install(); fp_init();
    int dummy = 0; run_supervised(body, on_death, &dummy, 0, 1L << 40, 30);
    for (int i = 0; i < K_NUM; i++) emit_counter(KN[i], CTR(i));
    emit_counter("footprint_checks", CTR(60));
    fprintf(g_out, "{\"t\":\"end\"}\n"); fflush(g_out);
    return 0;
}
