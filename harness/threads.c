/* C12 interference monitor: N threads run library calls on thread-private data whose expected results
 * were computed single-threaded (by the same code before the threads start, or by libc); every result
 * carries the thread's id so cross-talk is recognisable.  Evidence: per-function counts of calls that
 * actually overlapped in time with a call of the same function on another thread (in-flight counters).
 * The same binary is also built with -fsanitize=thread; its reports are parsed by the driver. */
#include "common.h"
#include <pthread.h>
#include <wchar.h>
#include <time.h>
#include <locale.h>

static const char *g_cfg = "plain"; static int g_tier; static int g_nthreads = 8;
static int want(const char *p) { return !strcmp(g_prop, "ALL") || !strcmp(g_prop, p); }

enum { F_QSORT, F_ASCTIME, F_CTIME, F_LDBL, F_BIGF, F_SWPRINTF, F_STRCPY, F_MEMCPY, F_SPRINTF_D, F_WCSCPY, F_STRTOK, F_SNPRINTF_S,
       F_WCSNORM, F_WCSFC, F_MBSTOWCS, F_WCSTOMBS, F_STRERROR, F_GMTIME, F_LOCALTIME, F_VFPRINTF, F_BSEARCH, F_GETENV, F_WCSTOK, F_SWPRINTF_OK, F_SPRINTF_G, F_NUM };
static const char *FN[F_NUM] = {"qsort_s", "asctime_s", "ctime_s", "sprintf_s(%Lf)", "sprintf_s(%f>1e9)", "swprintf_s(no-space)", "strcpy_s", "memcpy_s", "sprintf_s(%d)", "wcscpy_s", "strtok_s", "snprintf_s(%s)",
                                "wcsnorm_s(NFC)", "wcsfc_s", "mbstowcs_s", "wcstombs_s", "strerror_s", "gmtime_s", "localtime_s", "vfprintf_s", "bsearch_s", "getenv_s", "wcstok_s", "swprintf_s", "sprintf_s(%g)"};
/* expectations computed single-threaded before the threads start (same code, alone) */
#define MAXT 40
static wchar_t g_norm_src[MAXT][12], g_norm_want[MAXT][24], g_fc_src[MAXT][12], g_fc_want[MAXT][40]; static rsize_t g_norm_len[MAXT], g_fc_len[MAXT];
static char g_strerr_want[MAXT][120];
static int v_vfprintf_s(FILE *f, const char *fmt, ...) { va_list ap; va_start(ap, fmt); int r = vfprintf_s(f, fmt, ap); va_end(ap); return r; }
static int cmp_u32(const void *k, const void *e, void *ctx) { (void)ctx; uint32_t a = *(const uint32_t *)k, b = *(const uint32_t *)e; return a < b ? -1 : a > b; }
static void precompute(void) {
    for (int t = 0; t < MAXT; t++) {
        /* decomposed input with thread-specific letters: A + ring, e + acute, a third letter + diaeresis */
        wchar_t *n = g_norm_src[t]; n[0] = L'A' + t % 26; n[1] = 0x30A; n[2] = L'e'; n[3] = 0x301; n[4] = L'a' + t % 26; n[5] = 0x308; n[6] = L'0' + t % 10; n[7] = 0;
        _wcsnorm_s_chk(g_norm_want[t], 24, n, WCSNORM_NFC, &g_norm_len[t], sizeof g_norm_want[t]);
        wchar_t *f = g_fc_src[t]; f[0] = L'A' + t % 26; f[1] = 0xDF; f[2] = 0x130; f[3] = L'Z' - t % 26; f[4] = 0xC5; f[5] = L'0' + t % 10; f[6] = 0;
        _wcsfc_s_chk(g_fc_want[t], 40, f, &g_fc_len[t], sizeof g_fc_want[t]);
        _strerror_s_chk(g_strerr_want[t], sizeof g_strerr_want[t], t % 35, sizeof g_strerr_want[t]);
    }
}
static volatile int g_inflight[F_NUM]; static unsigned long long g_overlap[F_NUM], g_calls[F_NUM], g_bad[F_NUM];
static pthread_barrier_t g_bar; static pthread_mutex_t g_rep = PTHREAD_MUTEX_INITIALIZER;
static char g_first[F_NUM][300];

#define ENTER(f) do { int c_ = __sync_add_and_fetch(&g_inflight[f], 1); if (c_ > 1) __sync_fetch_and_add(&g_overlap[f], 1); __sync_fetch_and_add(&g_calls[f], 1); } while (0)
#define LEAVE(f) __sync_sub_and_fetch(&g_inflight[f], 1)
static void bad(int f, const char *fmt, ...) {
    __sync_fetch_and_add(&g_bad[f], 1);
    pthread_mutex_lock(&g_rep);
    if (!g_first[f][0]) { va_list ap; va_start(ap, fmt); vsnprintf(g_first[f], sizeof g_first[f], fmt, ap); va_end(ap); }
    pthread_mutex_unlock(&g_rep);
}
typedef struct { uint32_t key; uint32_t tid; uint64_t chk; unsigned char pad[300]; } elem_t;     /* > 256 bytes: the sort's chunked swap path */
static int cmp_elem(const void *a, const void *b, void *ctx) { (void)ctx; uint32_t x = ((const elem_t *)a)->key, y = ((const elem_t *)b)->key; return x < y ? -1 : x > y; }
typedef struct { uint32_t key; uint32_t tid; } small_t;
static int cmp_small(const void *a, const void *b, void *ctx) { (void)ctx; uint32_t x = ((const small_t *)a)->key, y = ((const small_t *)b)->key; return x < y ? -1 : x > y; }

static void *thread_main(void *arg) {
    int tid = (int)(intptr_t)arg; rng_t g = rng_from(g_seed, 1200, (uint64_t)tid);
    long iters = g_tier ? 60000 : 10000;
    elem_t *arr = malloc(24 * sizeof *arr); small_t sm[64];
    FILE *tf = tmpfile(); long tf_lines = 0;
    pthread_barrier_wait(&g_bar);
    for (long it = 0; it < iters; it++) {
        int f = (int)(it % F_NUM);
        switch (f) {
        case F_QSORT: {
            int big = (it / F_NUM) & 1; size_t n = big ? 24 : 64;
            if (big) { for (size_t i = 0; i < n; i++) { arr[i].key = (uint32_t)rnd_n(&g, 1000); arr[i].tid = (uint32_t)tid; arr[i].chk = mix64(arr[i].key * 31 + (uint64_t)tid); memset(arr[i].pad, (int)(arr[i].key + tid), sizeof arr[i].pad); }
                ENTER(f); _qsort_s_chk(arr, n, sizeof *arr, cmp_elem, NULL, n * sizeof *arr); LEAVE(f);
                for (size_t i = 0; i < n; i++) { if ((i && arr[i - 1].key > arr[i].key) || arr[i].tid != (uint32_t)tid || arr[i].chk != mix64(arr[i].key * 31 + (uint64_t)tid) || arr[i].pad[299] != (unsigned char)(arr[i].key + tid) || arr[i].pad[0] != (unsigned char)(arr[i].key + tid)) { bad(f, "thread %d: element %zu after qsort_s is out of order or carries foreign data (key %u tid %u)", tid, i, arr[i].key, arr[i].tid); break; } }
            } else { for (size_t i = 0; i < n; i++) { sm[i].key = (uint32_t)rnd_n(&g, 50); sm[i].tid = (uint32_t)tid; }
                ENTER(f); _qsort_s_chk(sm, n, sizeof sm[0], cmp_small, NULL, sizeof sm); LEAVE(f);
                for (size_t i = 0; i < n; i++) if ((i && sm[i - 1].key > sm[i].key) || sm[i].tid != (uint32_t)tid) { bad(f, "thread %d: small element %zu wrong after qsort_s", tid, i); break; } }
            break; }
        case F_ASCTIME: case F_CTIME: {
            struct tm tm; memset(&tm, 0, sizeof tm); tm.tm_year = 70 + tid; tm.tm_mon = (int)(it % 12); tm.tm_mday = 1 + (int)(it % 28); tm.tm_hour = tid % 24; tm.tm_min = (int)(it % 60); tm.tm_wday = (int)(it % 7);
            char want_[64], got[40]; memset(got, 'x', sizeof got);
            if (f == F_ASCTIME) { asctime_r(&tm, want_); ENTER(f); errno_t r = _asctime_s_chk(got, 30, &tm, 30); LEAVE(f); if (r != EOK || strcmp(got, want_)) bad(f, "thread %d: asctime_s gave rc=%d '%.30s', alone it gives '%.30s'", tid, r, got, want_); }
            else { time_t t = (time_t)(86400L * 365 * (tid + 1) + it * 61); ctime_r(&t, want_); ENTER(f); errno_t r = _ctime_s_chk(got, 30, &t, 30); LEAVE(f); if (r != EOK || strcmp(got, want_)) bad(f, "thread %d: ctime_s gave rc=%d '%.30s', alone it gives '%.30s'", tid, r, got, want_); }
            break; }
        case F_LDBL: { char got[80], want_[80]; long double v = (long double)tid * 1000.0L + (long double)(it % 997) + 0.25L; snprintf(want_, sizeof want_, "<%Lf>", v);
            ENTER(f); int r = _sprintf_s_chk(got, sizeof got, sizeof got, "<%Lf>", v); LEAVE(f); if (r < 0 || strcmp(got, want_)) bad(f, "thread %d: sprintf_s(%%Lf) gave rc=%d '%s', alone it gives '%s'", tid, r, got, want_); break; }
        case F_BIGF: { char got[80]; double v = 1e10 * (tid + 1) + (double)(it % 1000);   /* exercised for the race detector; its text is C11's business */
            ENTER(f); (void)_sprintf_s_chk(got, sizeof got, sizeof got, "%.0f|%d", v, tid); LEAVE(f); break; }
        case F_SWPRINTF: { wchar_t got[8]; ENTER(f); int r = _swprintf_s_chk(got, 4, sizeof got, L"%d-%d-%ls", tid, (int)it, L"thread-private"); LEAVE(f); if (r >= 0 || got[0] != 0) bad(f, "thread %d: swprintf_s that cannot fit returned %d / left data", tid, r); break; }
        case F_STRCPY: { char src[40], dst[48]; snprintf(src, sizeof src, "T%02d-%08ld-payload", tid, it); ENTER(f); errno_t r = _strcpy_s_chk(dst, sizeof dst, src, sizeof dst); LEAVE(f); if (r || strcmp(dst, src)) bad(f, "thread %d: strcpy_s result '%s' != '%s'", tid, dst, src); break; }
        case F_MEMCPY: { unsigned char a[200], b[200]; memset(a, tid + 1, sizeof a); a[0] = (unsigned char)it; ENTER(f); errno_t r = _memcpy_s_chk(b, sizeof b, a, sizeof a, sizeof b, sizeof a); LEAVE(f); if (r || memcmp(a, b, sizeof a)) bad(f, "thread %d: memcpy_s result differs", tid); break; }
        case F_SPRINTF_D: { char got[64], want_[64]; snprintf(want_, sizeof want_, "%d:%ld:%x", tid, it, (unsigned)(tid * 65537 + it)); ENTER(f); int r = _sprintf_s_chk(got, sizeof got, sizeof got, "%d:%ld:%x", tid, it, (unsigned)(tid * 65537 + it)); LEAVE(f); if (r < 0 || strcmp(got, want_)) bad(f, "thread %d: sprintf_s gave '%s' want '%s'", tid, got, want_); break; }
        case F_WCSCPY: { wchar_t src[24], dst[32]; swprintf(src, 24, L"T%02d-%06ld", tid, it % 1000000); ENTER(f); errno_t r = _wcscpy_s_chk(dst, 32, src, sizeof dst); LEAVE(f); if (r || wcscmp(dst, src)) bad(f, "thread %d: wcscpy_s result differs", tid); break; }
        case F_STRTOK: { char s[40]; snprintf(s, sizeof s, "a%d,b%d,c%ld", tid, tid, it % 100); rsize_t len = sizeof s; char *ctx = NULL; int n = 0; char first[16] = "";
            ENTER(f); for (char *t = _strtok_s_chk(s, &len, ",", &ctx, sizeof s); t && n < 8; t = _strtok_s_chk(NULL, &len, ",", &ctx, 0)) { if (!n) snprintf(first, sizeof first, "%s", t); n++; } LEAVE(f);
            char w1[16]; snprintf(w1, sizeof w1, "a%d", tid); if (n != 3 || strcmp(first, w1)) bad(f, "thread %d: strtok_s gave %d tokens, first '%s'", tid, n, first); break; }
        case F_WCSNORM: { wchar_t got[24]; rsize_t l = 0; int k = tid % MAXT; ENTER(f); errno_t r = _wcsnorm_s_chk(got, 24, g_norm_src[k], WCSNORM_NFC, &l, sizeof got); LEAVE(f);
            if (r || l != g_norm_len[k] || wcscmp(got, g_norm_want[k])) bad(f, "thread %d: wcsnorm_s(NFC) gave rc=%d len=%zu, alone it gives len=%zu", tid, r, (size_t)l, (size_t)g_norm_len[k]); break; }
        case F_WCSFC: { wchar_t got[40]; rsize_t l = 0; int k = tid % MAXT; ENTER(f); errno_t r = _wcsfc_s_chk(got, 40, g_fc_src[k], &l, sizeof got); LEAVE(f);
            if (r || l != g_fc_len[k] || wcscmp(got, g_fc_want[k])) bad(f, "thread %d: wcsfc_s gave rc=%d len=%zu, alone it gives len=%zu", tid, r, (size_t)l, (size_t)g_fc_len[k]); break; }
        case F_MBSTOWCS: { char src[32]; wchar_t got[32], want_[32]; snprintf(src, sizeof src, "T%02d-%05ld-\xc3\xa9\xe2\x82\xac", tid, it % 100000); size_t n = mbstowcs(want_, src, 32), rv = 0;
            ENTER(f); errno_t r = _mbstowcs_s_chk(&rv, got, 32, src, 31, sizeof got); LEAVE(f); if (r || rv != n || wmemcmp(got, want_, n + 1)) bad(f, "thread %d: mbstowcs_s gave rc=%d retval=%zu, libc %zu", tid, r, rv, n); break; }
        case F_WCSTOMBS: { wchar_t src[24]; char got[64], want_[64]; swprintf(src, 24, L"T%02d-%05ld-\u00e9\u20ac", tid, it % 100000); size_t n = wcstombs(want_, src, 64), rv = 0;
            ENTER(f); errno_t r = _wcstombs_s_chk(&rv, got, 64, src, 63, sizeof got); LEAVE(f); if (r || rv != n || memcmp(got, want_, n + 1)) bad(f, "thread %d: wcstombs_s gave rc=%d retval=%zu, libc %zu", tid, r, rv, n); break; }
        case F_STRERROR: { char got[120]; int k = tid % MAXT; ENTER(f); errno_t r = _strerror_s_chk(got, sizeof got, k % 35, sizeof got); LEAVE(f); if (r || strcmp(got, g_strerr_want[k])) bad(f, "thread %d: strerror_s(%d) gave rc=%d '%.40s', alone '%.40s'", tid, k % 35, r, got, g_strerr_want[k]); break; }
        case F_GMTIME: case F_LOCALTIME: { time_t t = (time_t)(86400L * 400 * (tid + 1) + it * 3607); struct tm got, want_; memset(&got, 0, sizeof got);
            if (f == F_GMTIME) { gmtime_r(&t, &want_); ENTER(f); struct tm *r = gmtime_s(&t, &got); LEAVE(f); if (!r || got.tm_year != want_.tm_year || got.tm_yday != want_.tm_yday || got.tm_hour != want_.tm_hour || got.tm_min != want_.tm_min || got.tm_sec != want_.tm_sec) bad(f, "thread %d: gmtime_s differs from gmtime_r (year %d vs %d)", tid, got.tm_year, want_.tm_year); }
            else { localtime_r(&t, &want_); ENTER(f); struct tm *r = localtime_s(&t, &got); LEAVE(f); if (!r || got.tm_year != want_.tm_year || got.tm_yday != want_.tm_yday || got.tm_hour != want_.tm_hour || got.tm_min != want_.tm_min || got.tm_sec != want_.tm_sec) bad(f, "thread %d: localtime_s differs from localtime_r (year %d vs %d)", tid, got.tm_year, want_.tm_year); }
            break; }
        case F_VFPRINTF: { if (!tf) break; ENTER(f); int r = v_vfprintf_s(tf, "T%03d:%ld:%s\n", tid, it, "thread-private-line"); LEAVE(f); if (r < 0) bad(f, "thread %d: vfprintf_s to a private stream returned %d", tid, r); tf_lines++; break; }
        case F_BSEARCH: { uint32_t arr[37]; for (int i = 0; i < 37; i++) arr[i] = (uint32_t)(tid * 1000 + i * 3); uint32_t key = (uint32_t)(tid * 1000 + (int)(it % 37) * 3);
            ENTER(f); uint32_t *r = _bsearch_s_chk(&key, arr, 37, sizeof arr[0], cmp_u32, NULL, sizeof arr); LEAVE(f); if (!r || *r != key || r != &arr[it % 37]) bad(f, "thread %d: bsearch_s did not find key %u", tid, key); break; }
        case F_GETENV: { char got[40]; size_t l = 0; ENTER(f); errno_t r = _getenv_s_chk(&l, got, sizeof got, "VERIF_THREADS_ENV", sizeof got); LEAVE(f); if (r || l != 17 || strcmp(got, "thread-env-value!")) bad(f, "thread %d: getenv_s gave rc=%d '%.30s'", tid, r, got); break; }
        case F_WCSTOK: { wchar_t s[40]; swprintf(s, 40, L"a%d,b%d,c%ld", tid, tid, it % 100); rsize_t len = 40; wchar_t *ctx = NULL; int n = 0; wchar_t first[16] = L"";
            ENTER(f); for (wchar_t *t = _wcstok_s_chk(s, &len, L",", &ctx, sizeof s); t && n < 8; t = _wcstok_s_chk(NULL, &len, L",", &ctx, 0)) { if (!n) { wcsncpy(first, t, 15); first[15] = 0; } n++; } LEAVE(f);
            wchar_t w1[16]; swprintf(w1, 16, L"a%d", tid); if (n != 3 || wcscmp(first, w1)) bad(f, "thread %d: wcstok_s gave %d tokens", tid, n); break; }
        case F_SWPRINTF_OK: { wchar_t got[64], want_[64]; swprintf(want_, 64, L"<%d|%ls|%5ld>", tid, L"w-private", it % 99999); ENTER(f); int r = _swprintf_s_chk(got, 64, sizeof got, L"<%d|%ls|%5ld>", tid, L"w-private", it % 99999); LEAVE(f);
            if (r < 0 || wcscmp(got, want_)) bad(f, "thread %d: swprintf_s gave rc=%d, text differs from swprintf", tid, r); break; }
        case F_SPRINTF_G: { char got[64], want_[64]; double v = (double)tid * 1.5 + (double)(it % 1000) / 8.0; snprintf(want_, sizeof want_, "%g|%e", v, v); ENTER(f); int r = _sprintf_s_chk(got, sizeof got, sizeof got, "%g|%e", v, v); LEAVE(f);
            if (r < 0 || strcmp(got, want_)) bad(f, "thread %d: sprintf_s(%%g|%%e) gave rc=%d '%s', C printf '%s'", tid, r, got, want_); break; }
        case F_SNPRINTF_S: { char got[64], want_[64]; snprintf(want_, sizeof want_, "[%10s|%-6d]", FN[tid % F_NUM], tid); ENTER(f); int r = _snprintf_s_chk(got, sizeof got, sizeof got, "[%10s|%-6d]", FN[tid % F_NUM], tid); LEAVE(f); if (r < 0 || strcmp(got, want_)) bad(f, "thread %d: snprintf_s gave '%s' want '%s'", tid, got, want_); break; }
        }
    }
    if (tf) {   /* every line of the private stream must be this thread's own, complete and in order */
        char line[128]; long n = 0, lastit = -1; rewind(tf);
        while (fgets(line, sizeof line, tf)) { int t2 = -1; long it2 = -1; char tail[40] = "";
            if (sscanf(line, "T%d:%ld:%39s", &t2, &it2, tail) != 3 || t2 != tid || it2 <= lastit || strcmp(tail, "thread-private-line")) { bad(F_VFPRINTF, "thread %d: its private stream contains the line '%.50s'", tid, line); break; }
            lastit = it2; n++; }
        if (n != tf_lines) bad(F_VFPRINTF, "thread %d: wrote %ld lines with vfprintf_s, its private stream holds %ld", tid, tf_lines, n);
        fclose(tf);
    }
    free(arr);
    return NULL;
}

int main(int argc, char **argv) {
    g_out = stdout;
    for (int i = 1; i < argc; i++) {
        if (!strcmp(argv[i], "--prop")) g_prop = argv[++i];
        else if (!strcmp(argv[i], "--tier")) g_tier = !strcmp(argv[++i], "thorough");
        else if (!strcmp(argv[i], "--seed")) g_seed = strtoull(argv[++i], NULL, 10);
        else if (!strcmp(argv[i], "--worker")) ++i;
        else if (!strcmp(argv[i], "--cfg")) g_cfg = argv[++i];
        else if (!strcmp(argv[i], "--threads")) g_nthreads = atoi(argv[++i]);
        else { fprintf(stderr, "unknown arg %s\n", argv[i]); return 2; }
    }
    setlocale(LC_ALL, "C.UTF-8"); setenv("TZ", "UTC", 1); tzset(); setenv("VERIF_THREADS_ENV", "thread-env-value!", 1);
    precompute();
    int rounds = g_tier ? 6 : 2;
    for (int r = 0; r < rounds; r++) {
        int nt = r % 2 ? 16 : g_nthreads; pthread_t th[32];
        pthread_barrier_init(&g_bar, NULL, (unsigned)nt);
        for (int i = 0; i < nt; i++) pthread_create(&th[i], NULL, thread_main, (void *)(intptr_t)(i + 1));
        for (int i = 0; i < nt; i++) pthread_join(th[i], NULL);
        pthread_barrier_destroy(&g_bar);
    }
    unsigned long long tot = 0, ov = 0;
    for (int f = 0; f < F_NUM; f++) {
        tot += g_calls[f]; ov += g_overlap[f];
        fprintf(g_out, "{\"t\":\"s\",\"s\":{\"function\":\"%s\",\"calls\":%llu,\"calls_overlapping_same_function\":%llu,\"wrong_results\":%llu}}\n", FN[f], g_calls[f], g_overlap[f], g_bad[f]);
        {   char b[64]; snprintf(b, sizeof b, "thr;%s;%d", FN[f], g_overlap[f] > 0); distinct_add(hash_str(b));
            snprintf(b, sizeof b, "thread_calls|%s", FN[f]); emit_counter(b, g_calls[f]); snprintf(b, sizeof b, "thread_calls_overlapping_same_function|%s", FN[f]); emit_counter(b, g_overlap[f]); }
        if (g_bad[f] && want("C12")) {
            char key[200], what[500], w[500];
            snprintf(key, sizeof key, "interference|%s|%s", FN[f], g_cfg);
            snprintf(what, sizeof what, "%s: %llu of %llu concurrent calls on thread-private data gave a result different from the single-threaded one; first: %s", FN[f], g_bad[f], g_calls[f], g_first[f]);
            snprintf(w, sizeof w, "{\"harness\":\"threads\",\"cfg\":\"%s\",\"fn\":\"%s\",\"bad\":%llu,\"calls\":%llu,\"overlapping\":%llu,\"replay\":\"threads --cfg %s --seed %llu --tier %s\"}", g_cfg, FN[f], g_bad[f], g_calls[f], g_overlap[f], g_cfg, (unsigned long long)g_seed, g_tier ? "thorough" : "quick");
            report("C12", key, what, w);
        }
    }
    emit_counter("thread_calls", tot); emit_counter("calls_overlapping_same_function", ov);
    distinct_emit();
    fprintf(g_out, "{\"t\":\"end\"}\n"); fflush(g_out);
    return 0;
}
