/* Shared monitoring machinery: rng, JSON records, guard-page arena, fault fence,
 * counting probe handlers, supervised (forked) execution.
 * Header-only (static functions) so that each harness is a single translation unit
 * plus the library under observation. */
#ifndef VERIF_COMMON_H
#define VERIF_COMMON_H
#ifndef _GNU_SOURCE
#define _GNU_SOURCE
#endif
#include <stdio.h>
#include <stdlib.h>
#include <string.h>
#include <stdint.h>
#include <stdarg.h>
#include <stddef.h>
#include <signal.h>
#include <setjmp.h>
#include <unistd.h>
#include <errno.h>
#include <wchar.h>
#include <locale.h>
#include <time.h>
#include <sys/mman.h>
#include <sys/wait.h>
#include <sys/types.h>
#include <ucontext.h>

#include "safe_lib.h"
#include "safe_str_lib.h"
#include "safe_mem_lib.h"

#ifndef BOS_UNKNOWN
#define BOS_UNKNOWN ((size_t)-1)
#endif

/* ------------------------------------------------------------------ rng */
static inline uint64_t mix64(uint64_t x) {
    x += 0x9E3779B97F4A7C15ull;
    x = (x ^ (x >> 30)) * 0xBF58476D1CE4E5B9ull;
    x = (x ^ (x >> 27)) * 0x94D049BB133111EBull;
    return x ^ (x >> 31);
}
typedef struct { uint64_t s; } rng_t;
static inline uint64_t rnd(rng_t *r) { r->s += 0x9E3779B97F4A7C15ull; return mix64(r->s); }
static inline uint64_t rnd_n(rng_t *r, uint64_t n) { return n ? rnd(r) % n : 0; }
static inline rng_t rng_from(uint64_t a, uint64_t b, uint64_t c) {
    rng_t r; r.s = mix64(a * 0x100000001B3ull ^ mix64(b) ^ mix64(c + 0x51ED27)); return r;
}
static inline uint64_t hash_str(const char *s) {
    uint64_t h = 1469598103934665603ull;
    while (*s) { h ^= (unsigned char)*s++; h *= 1099511628211ull; }
    return mix64(h);
}

/* ------------------------------------------------------------------ records */
static FILE *g_out;           /* record stream (JSON lines) */
static const char *g_prop = "C00";
static uint64_t g_seed = 0;
static int g_verbose = 0;

static void jesc(FILE *f, const char *s) {
    fputc('"', f);
    for (; *s; s++) {
        unsigned char c = (unsigned char)*s;
        if (c == '"' || c == '\\') { fputc('\\', f); fputc(c, f); }
        else if (c < 0x20 || c >= 0x7f) fprintf(f, "\\u%04x", c);
        else fputc(c, f);
    }
    fputc('"', f);
}

/* violation keys are de-duplicated per process; first witness is emitted at once
 * (write-through so it survives the death of the worker) */
#define VK_MAX 8192
static struct { uint64_t h; unsigned n; } g_vk[VK_MAX];
static unsigned g_nvk;
static unsigned long g_violations_total;

static int vk_seen(const char *key) {
    uint64_t h = hash_str(key);
    unsigned i = (unsigned)(h % VK_MAX), k;
    for (k = 0; k < VK_MAX; k++, i = (i + 1) % VK_MAX) {
        if (g_vk[i].n == 0) { g_vk[i].h = h; g_vk[i].n = 1; g_nvk++; return 0; }
        if (g_vk[i].h == h) { g_vk[i].n++; return 1; }
    }
    return 1;
}

/* report: prop, key (stable class), what (human text), witness (json object text) */
static void report(const char *prop, const char *key, const char *what, const char *witness_json) {
    g_violations_total++;
    char full[600];
    snprintf(full, sizeof full, "%s|%s", prop, key);
    if (vk_seen(full)) return;
    fprintf(g_out, "{\"t\":\"v\",\"p\":\"%s\",\"key\":", prop); jesc(g_out, full);
    fprintf(g_out, ",\"what\":"); jesc(g_out, what);
    fprintf(g_out, ",\"w\":%s}\n", witness_json && *witness_json ? witness_json : "{}");
    fflush(g_out);
}

static void emit_counter(const char *name, unsigned long long n) {
    fprintf(g_out, "{\"t\":\"c\",\"k\":"); jesc(g_out, name); fprintf(g_out, ",\"n\":%llu}\n", n);
}
static void emit_sample(const char *json) { fprintf(g_out, "{\"t\":\"s\",\"s\":%s}\n", json); }

/* distinct-class accounting: 64-bit hashes of class signatures, unioned by the driver */
#define DH_MAX (1u << 18)
static uint64_t *g_dh; static unsigned g_ndh;
static void distinct_add(uint64_t h) {
    if (!g_dh) g_dh = calloc(DH_MAX, sizeof *g_dh);
    if (h == 0) h = 1;
    unsigned i = (unsigned)(h & (DH_MAX - 1)), k;
    for (k = 0; k < DH_MAX; k++, i = (i + 1) & (DH_MAX - 1)) {
        if (g_dh[i] == 0) { if (g_ndh >= DH_MAX / 2) return; g_dh[i] = h; g_ndh++; return; }
        if (g_dh[i] == h) return;
    }
}
static void distinct_emit(void) {
    unsigned i, n = 0;
    if (!g_dh) return;
    for (i = 0; i < DH_MAX; i++) if (g_dh[i]) {
        if (n % 512 == 0) fprintf(g_out, "%s{\"t\":\"dh\",\"h\":[", n ? "]}\n" : "");
        fprintf(g_out, "%s\"%llx\"", n % 512 ? "," : "", (unsigned long long)g_dh[i]);
        n++;
    }
    if (n) fprintf(g_out, "]}\n");
}

/* ------------------------------------------------------------------ arena */
#define PAGE 4096u
#define NSLOT 5
#define SLOT_PAGES 3                 /* data pages per slot */
#define SLOT_BYTES (SLOT_PAGES * PAGE)
#define CANARY 0xC9

typedef struct { uint8_t *data; } slot_t;   /* data[-1] and data[SLOT_BYTES] are unmapped */
static slot_t g_slot[NSLOT];
static uint8_t *g_arena_base; static size_t g_arena_len;
static uint8_t *g_snap;                     /* NSLOT*SLOT_BYTES */

static void arena_init(void) {
    size_t per = (SLOT_PAGES + 1) * PAGE;
    g_arena_len = per * NSLOT + PAGE;
    g_arena_base = mmap(NULL, g_arena_len, PROT_NONE, MAP_PRIVATE | MAP_ANONYMOUS | MAP_NORESERVE, -1, 0);
    if (g_arena_base == MAP_FAILED) { perror("mmap"); exit(2); }
    for (int i = 0; i < NSLOT; i++) {
        g_slot[i].data = g_arena_base + PAGE + per * i;
        if (mprotect(g_slot[i].data, SLOT_BYTES, PROT_READ | PROT_WRITE)) { perror("mprotect"); exit(2); }
        memset(g_slot[i].data, CANARY, SLOT_BYTES);
    }
    g_snap = malloc((size_t)NSLOT * SLOT_BYTES);
}
static inline uint8_t *slot_end(int s) { return g_slot[s].data + SLOT_BYTES; }
/* object of nbytes ending exactly at the trailing guard */
static inline void *place_end(int s, size_t nbytes) { return slot_end(s) - nbytes; }
static inline void *place_begin(int s) { return g_slot[s].data; }
/* the guard page behind slot s readable and filled with a given byte pattern (element width ew), still not writable */
static inline void guard_fill(int s, uint32_t v, int ew) {
    uint8_t *g = slot_end(s); if (mprotect(g, PAGE, PROT_READ | PROT_WRITE)) { perror("mprotect guard"); exit(2); }
    if (ew == 1) memset(g, (int)v, PAGE); else for (size_t i = 0; i < PAGE / 4; i++) ((uint32_t *)g)[i] = v;
    if (mprotect(g, PAGE, PROT_READ)) { perror("mprotect guard"); exit(2); }
}
/* makes the guard page behind slot s readable (never written: zeros) or unmapped again */
static inline void guard_readable(int s, int on) { if (mprotect(slot_end(s), PAGE, on ? PROT_READ : PROT_NONE)) { perror("mprotect guard"); exit(2); } }
static inline void *place_mid(int s, size_t off) { return g_slot[s].data + off; }

static void arena_canary(void) { for (int i = 0; i < NSLOT; i++) memset(g_slot[i].data, CANARY, SLOT_BYTES); }
static void arena_snapshot(void) { for (int i = 0; i < NSLOT; i++) memcpy(g_snap + (size_t)i * SLOT_BYTES, g_slot[i].data, SLOT_BYTES); }
static inline uint8_t *snap_of(const void *p) {   /* snapshot address of an arena address */
    const uint8_t *q = p;
    for (int i = 0; i < NSLOT; i++)
        if (q >= g_slot[i].data && q <= g_slot[i].data + SLOT_BYTES)
            return g_snap + (size_t)i * SLOT_BYTES + (q - g_slot[i].data);
    return NULL;
}
static inline int in_arena(const void *p) {
    return (const uint8_t *)p >= g_arena_base && (const uint8_t *)p < g_arena_base + g_arena_len;
}

/* permitted-write extents */
typedef struct { const uint8_t *p; size_t n; const char *role; } extent_t;
#define MAXEXT 8

/* find first changed byte outside the permitted extents; returns 1 and fills *where/*role info */
static int arena_stray_write(const extent_t *ext, int next, const uint8_t **where, uint8_t *oldv, uint8_t *newv) {
    for (int i = 0; i < NSLOT; i++) {
        const uint8_t *d = g_slot[i].data, *s = g_snap + (size_t)i * SLOT_BYTES;
        if (memcmp(d, s, SLOT_BYTES) == 0) continue;
        for (size_t k = 0; k < SLOT_BYTES; k++) {
            if (d[k] == s[k]) continue;
            const uint8_t *a = d + k; int ok = 0;
            for (int e = 0; e < next; e++)
                if (ext[e].p && a >= ext[e].p && a < ext[e].p + ext[e].n) { ok = 1; k = (size_t)(ext[e].p + ext[e].n - d) - 1; break; }
            if (!ok) { *where = a; *oldv = s[k]; *newv = d[k]; return 1; }
        }
    }
    return 0;
}

/* ------------------------------------------------------------------ fence */
static struct {
    sigjmp_buf env;
    volatile sig_atomic_t active;
    volatile int faulted, is_write, signo;
    volatile uintptr_t addr, pc;
} g_fence;

static void fence_handler(int sig, siginfo_t *si, void *uc_) {
    ucontext_t *uc = uc_;
    if (!g_fence.active) {
        signal(sig, SIG_DFL);
        return;            /* re-executes the faulting instruction -> default action */
    }
    g_fence.faulted = 1;
    g_fence.signo = sig;
    g_fence.addr = (uintptr_t)si->si_addr;
#if defined(__x86_64__)
    g_fence.is_write = (uc->uc_mcontext.gregs[REG_ERR] & 2) ? 1 : 0;
    g_fence.pc = (uintptr_t)uc->uc_mcontext.gregs[REG_RIP];
#else
    g_fence.is_write = -1; g_fence.pc = 0;
#endif
    g_fence.active = 0;
    siglongjmp(g_fence.env, 1);
}
static void fence_init(void) {
    static char *stk;
    stack_t ss; struct sigaction sa;
    if (!stk) stk = malloc(1 << 16);
    ss.ss_sp = stk; ss.ss_size = 1 << 16; ss.ss_flags = 0;
    sigaltstack(&ss, NULL);
    memset(&sa, 0, sizeof sa);
    sa.sa_sigaction = fence_handler;
    sa.sa_flags = SA_SIGINFO | SA_ONSTACK | SA_NODEFER;
    sigemptyset(&sa.sa_mask);
    sigaction(SIGSEGV, &sa, NULL);
    sigaction(SIGBUS, &sa, NULL);
}

/* ------------------------------------------------------------------ footprint monitor (C12)
 * When the harness is linked against the shared build (libsafec_v.so, -z now), fp_init() locates the loaded
 * image, reads the .data/.bss section ranges and the object symbols from the file, and fp_before()/fp_after()
 * compare a byte snapshot of that storage around a single call.  A changed byte that does not belong to the
 * handler-registration variables is a C12 event: "function F left a footprint in symbol S". */
#include <link.h>
#include <elf.h>
#include <fcntl.h>
#include <sys/stat.h>
static int g_fp_on;
static struct { uint8_t *addr; size_t len; uint8_t *snap; const char *name; } g_fp_rng[4]; static int g_fp_nr;
static struct { uintptr_t addr; size_t size; char name[48]; } *g_fp_sym; static int g_fp_nsym;
static uintptr_t g_fp_base; static char g_fp_path[512];
static const char *g_cur_fn = "?";
static unsigned long long g_fp_checks, g_fp_bytes;
static int fp_phdr_cb(struct dl_phdr_info *info, size_t sz, void *d) {
    (void)sz; (void)d;
    if (info->dlpi_name && strstr(info->dlpi_name, "libsafec_v.so")) { g_fp_base = info->dlpi_addr; snprintf(g_fp_path, sizeof g_fp_path, "%s", info->dlpi_name); return 1; }
    return 0;
}
static int fp_init(void) {
    dl_iterate_phdr(fp_phdr_cb, NULL);
    if (!g_fp_base) return 0;
    int fd = open(g_fp_path, O_RDONLY); if (fd < 0) return 0;
    struct stat st; fstat(fd, &st);
    uint8_t *f = mmap(NULL, (size_t)st.st_size, PROT_READ, MAP_PRIVATE, fd, 0); close(fd);
    if (f == MAP_FAILED) return 0;
    Elf64_Ehdr *eh = (Elf64_Ehdr *)f; Elf64_Shdr *sh = (Elf64_Shdr *)(f + eh->e_shoff); const char *shstr = (const char *)f + sh[eh->e_shstrndx].sh_offset;
    for (int i = 0; i < eh->e_shnum; i++) {
        const char *n = shstr + sh[i].sh_name;
        if ((!strcmp(n, ".data") || !strcmp(n, ".bss")) && sh[i].sh_size && g_fp_nr < 4) {
            g_fp_rng[g_fp_nr].addr = (uint8_t *)(g_fp_base + sh[i].sh_addr); g_fp_rng[g_fp_nr].len = sh[i].sh_size; g_fp_rng[g_fp_nr].snap = malloc(sh[i].sh_size); g_fp_rng[g_fp_nr].name = !strcmp(n, ".data") ? ".data" : ".bss"; g_fp_nr++;
        }
        if (sh[i].sh_type == SHT_SYMTAB) {
            Elf64_Sym *sy = (Elf64_Sym *)(f + sh[i].sh_offset); size_t ns = sh[i].sh_size / sizeof *sy; const char *str = (const char *)f + sh[sh[i].sh_link].sh_offset;
            g_fp_sym = calloc(ns, sizeof *g_fp_sym);
            for (size_t k = 0; k < ns; k++) if (ELF64_ST_TYPE(sy[k].st_info) == STT_OBJECT && sy[k].st_size) { g_fp_sym[g_fp_nsym].addr = g_fp_base + sy[k].st_value; g_fp_sym[g_fp_nsym].size = sy[k].st_size; snprintf(g_fp_sym[g_fp_nsym].name, sizeof g_fp_sym[0].name, "%s", str + sy[k].st_name); g_fp_nsym++; }
        }
    }
    g_fp_on = g_fp_nr > 0;
    return g_fp_on;
}
static inline void fp_before(void) { if (g_fp_on) for (int i = 0; i < g_fp_nr; i++) memcpy(g_fp_rng[i].snap, g_fp_rng[i].addr, g_fp_rng[i].len); }
static const char *fp_symbol(uintptr_t a, long *off) {
    for (int i = 0; i < g_fp_nsym; i++) if (a >= g_fp_sym[i].addr && a < g_fp_sym[i].addr + g_fp_sym[i].size) { *off = (long)(a - g_fp_sym[i].addr); return g_fp_sym[i].name; }
    *off = 0; return "(no symbol)";
}
static void fp_after(void) {
    if (!g_fp_on) return;
    g_fp_checks++;
    for (int i = 0; i < g_fp_nr; i++) {
        g_fp_bytes += g_fp_rng[i].len;
        if (!memcmp(g_fp_rng[i].snap, g_fp_rng[i].addr, g_fp_rng[i].len)) continue;
        for (size_t k = 0; k < g_fp_rng[i].len; k++) if (g_fp_rng[i].snap[k] != g_fp_rng[i].addr[k]) {
            long off; const char *sym = fp_symbol((uintptr_t)g_fp_rng[i].addr + k, &off);
            if (!strcmp(sym, "str_handler") || !strcmp(sym, "mem_handler")) { k += 7; continue; }     /* the registration variables */
            char key[200], what[400], w[400];
            snprintf(key, sizeof key, "footprint|%s|%s", g_cur_fn, sym);
            snprintf(what, sizeof what, "%s changed the library's own static storage: %s+%ld in %s (%02x -> %02x): state kept across calls", g_cur_fn, sym, off, g_fp_rng[i].name, g_fp_rng[i].snap[k], g_fp_rng[i].addr[k]);
            snprintf(w, sizeof w, "{\"harness\":\"footprint\",\"fn\":\"%s\",\"symbol\":\"%s\",\"offset\":%ld,\"section\":\"%s\"}", g_cur_fn, sym, off, g_fp_rng[i].name);
            if (!strcmp(g_prop, "C12") || !strcmp(g_prop, "ALL")) report("C12", key, what, w);
            break;
        }
    }
}

/* FENCED(stmt): run stmt; afterwards g_fence.faulted tells whether it faulted */
#define FENCED(stmt) do { g_fence.faulted = 0; fp_before(); \
    if (sigsetjmp(g_fence.env, 1) == 0) { g_fence.active = 1; stmt; g_fence.active = 0; } \
    if (!g_fence.faulted) fp_after(); \
    } while (0)

/* ------------------------------------------------------------------ probe handlers */
#define HLOG 4
static struct {
    int count;
    int code[HLOG]; int kind[HLOG];   /* kind: 's' or 'm' */
    void *ptr[HLOG];
    char msg[HLOG][72];
} g_h;
static void probe_record(int kind, const char *msg, void *ptr, errno_t err) {
    if (g_h.count < HLOG) {
        int i = g_h.count;
        g_h.code[i] = err; g_h.kind[i] = kind; g_h.ptr[i] = ptr;
        if (msg) { strncpy(g_h.msg[i], msg, sizeof g_h.msg[i] - 1); g_h.msg[i][sizeof g_h.msg[i] - 1] = 0; }
        else g_h.msg[i][0] = 0;
    }
    g_h.count++;
}
static void probe_str(const char *msg, void *ptr, errno_t err) { probe_record('s', msg, ptr, err); }
static void probe_mem(const char *msg, void *ptr, errno_t err) { probe_record('m', msg, ptr, err); }
static void probes_install(void) {
    set_str_constraint_handler_s(probe_str);
    set_mem_constraint_handler_s(probe_mem);
}
static inline void probes_reset(void) { g_h.count = 0; g_h.msg[0][0] = 0; }

/* ------------------------------------------------------------------ supervised execution
 * run_supervised(fn, arg, lo, hi): executes body(arg, idx) for idx in [lo,hi) inside forked
 * children.  The child publishes the index in flight; if it dies, the parent calls
 * on_death(arg, idx, status, hung) and restarts after that index. */
typedef struct { volatile long cur; volatile long done; volatile int in_call; volatile unsigned long long ctr[64]; } shm_t;
static shm_t *g_shm;
static void shm_init(void) {
    g_shm = mmap(NULL, sizeof *g_shm, PROT_READ | PROT_WRITE, MAP_SHARED | MAP_ANONYMOUS, -1, 0);
    memset((void *)g_shm, 0, sizeof *g_shm);
}
#define CTR(i) (g_shm->ctr[i])

typedef void (*body_fn)(void *arg, long lo, long hi);   /* must set g_shm->cur before each case */
typedef void (*death_fn)(void *arg, long idx, int status, int hung);

static volatile sig_atomic_t g_alarm_fired;
static void on_alarm(int s) { (void)s; g_alarm_fired = 1; }

static void run_supervised(body_fn body, death_fn on_death, void *arg, long lo, long hi, int watchdog_s) {
    long start = lo; int retries_same = 0; long last_dead = -1;
    while (start < hi) {
        fflush(g_out); fflush(stdout); fflush(stderr);
        g_shm->cur = start; g_shm->done = 0; g_shm->in_call = 0;
        pid_t pid = fork();
        if (pid < 0) { perror("fork"); exit(2); }
        if (pid == 0) {
            body(arg, start, hi);
            fflush(g_out);
            g_shm->done = 1;
#ifdef VERIF_COV
            { extern void __gcov_dump(void); __gcov_dump(); }     /* tools/coverage.py builds only */
#endif
            _exit(0);
        }
        int status = 0, hung = 0;
        /* watchdog: progress-based; kill if cur does not advance for watchdog_s seconds */
        long lastcur = -2; int idle = 0;
        for (;;) {
            pid_t r = waitpid(pid, &status, WNOHANG);
            if (r == pid) break;
            struct timespec ts = {0, 20 * 1000 * 1000}; nanosleep(&ts, NULL);
            if (g_shm->cur != lastcur) { lastcur = g_shm->cur; idle = 0; }
            else if (++idle > watchdog_s * 50) { kill(pid, SIGKILL); waitpid(pid, &status, 0); hung = 1; break; }
        }
        if (!hung && WIFEXITED(status) && WEXITSTATUS(status) == 0 && g_shm->done) return;
        long dead = g_shm->cur;
        if (hung && dead != last_dead) {   /* re-run once before reporting a hang */
            last_dead = dead; start = dead; retries_same = 1; continue;
        }
        (void)retries_same;
        on_death(arg, dead, status, hung);
        last_dead = dead;
        start = dead + 1;
    }
}

/* ------------------------------------------------------------------ misc */
static const char *errname(long e) {
    static char b[4][24]; static int k;
    switch (e) {
    case 0: return "EOK"; case 400: return "ESNULLP"; case 401: return "ESZEROL"; case 402: return "ESLEMIN";
    case 403: return "ESLEMAX"; case 404: return "ESOVRLP"; case 405: return "ESEMPTY"; case 406: return "ESNOSPC";
    case 407: return "ESUNTERM"; case 408: return "ESNODIFF"; case 409: return "ESNOTFND"; case 410: return "ESLEWRNG";
    case 75: return "EOVERFLOW"; case 22: return "EINVAL"; case 84: return "EILSEQ"; case 34: return "ERANGE";
    }
    k = (k + 1) & 3; snprintf(b[k], sizeof b[k], "E%ld", e); return b[k];
}

/* append formatted text to a bounded buffer */
static void sb_add(char *buf, size_t cap, const char *fmt, ...) {
    size_t l = strlen(buf); va_list ap;
    if (l + 1 >= cap) return;
    va_start(ap, fmt); vsnprintf(buf + l, cap - l, fmt, ap); va_end(ap);
}
/* hex dump of up to n bytes into buf */
static void sb_hex(char *buf, size_t cap, const void *p, size_t n, size_t maxn) {
    const uint8_t *q = p; size_t i;
    for (i = 0; i < n && i < maxn; i++) sb_add(buf, cap, "%02x", q[i]);
    if (n > maxn) sb_add(buf, cap, "..(%zu)", n);
}

#endif
