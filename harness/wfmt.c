/* wfmt: the wide formatted-output functions that store into a buffer (swprintf_s, vswprintf_s, snwprintf_s, vsnwprintf_s) on
 * valid formats, every dmax around the length of the text, and the scanf_s families on valid input.
 *   C01/C02 fence (dest exact-fit in front of a PROT_NONE page)      C03 terminator inside dmax after every return
 *   C04 failed call leaves dest empty / all zero                       C05 no handler on a valid call, exactly one on a failing one
 *   C08 slack zero after success (default build)
 * The text itself is compared with the C library's swprintf on the same arguments (the library delegates to it): a success that
 * stores other characters, or a return value that is not the number of characters stored, is reported under C03's sibling rule
 * "result-differs" of C08/C04 only through the key class; no property of its own is claimed for the wide text.
 * scanf_s: same conversions, assigned values and return value as the C library's sscanf/fscanf on the same input, no handler call. */
#include "common.h"
#include <wchar.h>
#include <stdarg.h>
#include <locale.h>
#include <sys/wait.h>

static const char *g_cfg = "plain"; static int g_noslack;
static int want(const char *p) { return !strcmp(g_prop, "ALL") || !strcmp(g_prop, p); }
static unsigned long long n_calls, n_fit, n_nofit, n_scanf; static char g_wit[800];

static void vio(const char *prop, const char *fn, const char *rule, const char *cls, const char *obs) {
    char key[260], what[520];
    if (!want(prop)) return;
    snprintf(key, sizeof key, "%s|%s|%s|%s", fn, rule, cls, (prop[2] == '3' || prop[2] == '4' || prop[2] == '8' || prop[2] == '1') ? g_cfg : "-");
    snprintf(what, sizeof what, "%s: %s: %s", fn, rule, obs);
    char eo[300] = ""; for (const char *p = obs; *p && strlen(eo) < 290; p++) if (*p != '"' && *p != '\\' && (unsigned char)*p >= 32 && (unsigned char)*p < 127) sb_add(eo, sizeof eo, "%c", *p);
    snprintf(g_wit, sizeof g_wit, "{\"harness\":\"wfmt\",\"cfg\":\"%s\",\"fn\":\"%s\",\"class\":\"%s\",\"obs\":\"%s\",\"replay\":\"wfmt --cfg %s\"}", g_cfg, fn, cls, eo, g_cfg);
    report(prop, key, what, g_wit);
}
static int v_vswprintf_s(wchar_t *d, rsize_t n, size_t bos, const wchar_t *f, ...) { va_list ap; va_start(ap, f); int r = _vswprintf_s_chk(d, n, bos, f, ap); va_end(ap); return r; }
static int v_vsnwprintf_s(wchar_t *d, rsize_t n, size_t bos, const wchar_t *f, ...) { va_list ap; va_start(ap, f); int r = _vsnwprintf_s_chk(d, n, bos, f, ap); va_end(ap); return r; }
static const char *FN[4] = {"swprintf_s", "vswprintf_s", "snwprintf_s", "vsnwprintf_s"};

static wchar_t g_ref[300]; static int g_reflen; static wchar_t *g_d; static size_t g_dm; static int g_ret;
static void after(int t, const char *cls, int bos, const char *fmtname) {
    char obs[300], c2[120]; size_t dm = g_dm; wchar_t *d = g_d; int trunc = t >= 2; int hc = g_h.count;
    n_calls++; g_shm->in_call = 0;
    snprintf(c2, sizeof c2, "%s|%s|%s", cls, g_reflen < (int)dm ? "fits" : g_reflen == (int)dm ? "one-short" : "does-not-fit", bos ? "bos=exact" : "bos=unknown");
    {   char b[200]; snprintf(b, sizeof b, "%s;%s;%d;%d", FN[t], c2, g_ret < 0 ? -1 : g_ret == g_reflen, hc); distinct_add(hash_str(b)); }
    if (g_fence.faulted) { snprintf(obs, sizeof obs, "%s fault at dest%+ld elements (dmax %zu, text length %d, format %s)", g_fence.is_write ? "WRITE" : "READ", (long)((long)(g_fence.addr - (uintptr_t)d) / 4), dm, g_reflen, fmtname);
        vio(g_fence.is_write ? "C01" : "C02", FN[t], g_fence.is_write ? "W-fault" : "R-fault", c2, obs); return; }
    for (int i = 0; i < 32; i++) if (((uint8_t *)d)[-32 + i] != CANARY) { vio("C01", FN[t], "write-before-dest", c2, "canary in front of dest changed"); break; }
    size_t l = wcsnlen(d, dm);
    if (l == dm) { snprintf(obs, sizeof obs, "no terminator in dest[0..%zu) after ret=%d (format %s)", dm, g_ret, fmtname); vio("C03", FN[t], "unterminated-dest", c2, obs); return; }
    if (g_reflen < (int)dm) {       /* the text fits */
        n_fit++;
        if (g_ret < 0 || hc) { snprintf(obs, sizeof obs, "valid call with fitting text (length %d, dmax %zu, format %s) returned %d, handler calls %d (%.60s)", g_reflen, dm, fmtname, g_ret, hc, hc ? g_h.msg[0] : ""); vio("C05", FN[t], "R4-valid-call-reported-as-violation", c2, obs); return; }
        if (l != (size_t)g_reflen || wmemcmp(d, g_ref, l) || g_ret != g_reflen) { snprintf(obs, sizeof obs, "returned %d and stored %zu characters; the C library's swprintf gives %d characters (format %s)", g_ret, l, g_reflen, fmtname); vio("C08", FN[t], "success-with-different-text-or-count", c2, obs); return; }
        if (!g_noslack) for (size_t i = l; i < dm; i++) if (d[i]) { snprintf(obs, sizeof obs, "text length %zu, dmax %zu, dest[%zu]=%#x (format %s)", l, dm, i, (unsigned)d[i], fmtname); vio("C08", FN[t], "stale-data-behind-terminator", c2, obs); break; }
    } else {
        n_nofit++;
        if (!trunc) {
            if (g_ret >= 0) { snprintf(obs, sizeof obs, "text of %d characters does not fit in dmax %zu but the call returned %d (format %s)", g_reflen, dm, g_ret, fmtname); vio("C05", FN[t], "R0-violation-not-reported", c2, obs); }
            else if (hc != 1) { snprintf(obs, sizeof obs, "returned %d with %d handler calls", g_ret, hc); vio("C05", FN[t], hc ? "R1-handler-invoked-more-than-once" : "R3-failure-returned-without-handler", c2, obs); }
            else if (g_h.code[0] != -g_ret) { snprintf(obs, sizeof obs, "handler got %s, returned %d", errname(g_h.code[0]), g_ret); vio("C05", FN[t], "R2-handler-code-differs-from-returned-code", c2, obs); }
            if (g_ret < 0) {
                if (d[0]) { snprintf(obs, sizeof obs, "ret=%d but dest[0]=%#x", g_ret, (unsigned)d[0]); vio("C04", FN[t], "dest[0]-not-zero", c2, obs); }
                else for (size_t i = 1; i < dm; i++) if (d[i]) { if (g_noslack) { vio("C04", FN[t], "partial-result-left-no-slack-build", "text-does-not-fit", "failed call leaves part of the text behind dest[0]"); } else { snprintf(obs, sizeof obs, "ret=%d, dest[%zu]=%#x", g_ret, i, (unsigned)d[i]); vio("C04", FN[t], "not-all-zero-after-late-failure", c2, obs); } break; }
            }
        } else {
            /* truncating pair: an empty dest or a prefix of the text, nothing else */
            if (l && wmemcmp(d, g_ref, l)) { snprintf(obs, sizeof obs, "truncated result (%zu characters, ret=%d) is not a prefix of the text (format %s)", l, g_ret, fmtname); vio("C04", FN[t], "truncated-result-is-not-a-prefix", c2, obs); }
            if (hc > 1) { snprintf(obs, sizeof obs, "%d handler calls", hc); vio("C05", FN[t], "R1-handler-invoked-more-than-once", c2, obs); }
        }
    }
}
#define WCASE(CLS, FMT, ...) do { \
    g_reflen = swprintf(g_ref, 290, FMT, ##__VA_ARGS__); \
    if (g_reflen >= 0) for (int t = 0; t < 4; t++) for (int bos = 0; bos < 2; bos++) { \
        size_t dms[] = {1, 2, (size_t)g_reflen ? (size_t)g_reflen - 1 : 1, (size_t)g_reflen ? (size_t)g_reflen : 1, (size_t)g_reflen + 1, (size_t)g_reflen + 2, (size_t)g_reflen + 9, 64}; \
        for (unsigned di = 0; di < 8; di++) { size_t dm = dms[di]; if (!dm || dm > 200) continue; \
            g_d = place_end(0, dm * sizeof(wchar_t)); memset((uint8_t *)g_d - 32, CANARY, 32); for (size_t i = 0; i < dm; i++) g_d[i] = 0x7878 + (wchar_t)i; g_dm = dm; \
            size_t B = bos ? dm * sizeof(wchar_t) : BOS_UNKNOWN; probes_reset(); g_ret = -9999; g_cur_fn = FN[t]; g_shm->in_call = 1; \
            switch (t) { case 0: FENCED(g_ret = _swprintf_s_chk(g_d, dm, B, FMT, ##__VA_ARGS__)); break; case 1: FENCED(g_ret = v_vswprintf_s(g_d, dm, B, FMT, ##__VA_ARGS__)); break; \
                         case 2: FENCED(g_ret = _snwprintf_s_chk(g_d, dm, B, FMT, ##__VA_ARGS__)); break; default: FENCED(g_ret = v_vsnwprintf_s(g_d, dm, B, FMT, ##__VA_ARGS__)); break; } \
            after(t, CLS, bos, #FMT); } } } while (0)

/* formats on which the C library itself fails after partial output (encoding error in a %s argument): a failure with dest empty is the only
 * acceptable outcome */
static void after_error(int t, const char *cls, int bos, const char *fmtname) {
    char obs[300], c2[120]; size_t dm = g_dm; wchar_t *d = g_d; int hc = g_h.count;
    n_calls++; g_shm->in_call = 0;
    snprintf(c2, sizeof c2, "%s|%s", cls, bos ? "bos=exact" : "bos=unknown");
    {   char b[200]; snprintf(b, sizeof b, "%s;%s;%d;%d", FN[t], c2, g_ret < 0 ? -1 : 1, hc); distinct_add(hash_str(b)); }
    if (g_fence.faulted) { snprintf(obs, sizeof obs, "%s fault at dest%+ld elements (format %s)", g_fence.is_write ? "WRITE" : "READ", (long)((long)(g_fence.addr - (uintptr_t)d) / 4), fmtname); vio(g_fence.is_write ? "C01" : "C02", FN[t], g_fence.is_write ? "W-fault" : "R-fault", c2, obs); return; }
    size_t l = wcsnlen(d, dm);
    if (l == dm) { snprintf(obs, sizeof obs, "no terminator in dest[0..%zu) after ret=%d (format %s)", dm, g_ret, fmtname); vio("C03", FN[t], "unterminated-dest", c2, obs); return; }
    if (g_ret >= 0) return;          /* a library that renders the argument differently from libc and succeeds is not this rule's business */
    if (hc != 1) { snprintf(obs, sizeof obs, "returned %d with %d handler calls", g_ret, hc); vio("C05", FN[t], hc ? "R1-handler-invoked-more-than-once" : "R3-failure-returned-without-handler", c2, obs); }
    if (d[0]) { snprintf(obs, sizeof obs, "ret=%d but dest[0]=%#x", g_ret, (unsigned)d[0]); vio("C04", FN[t], "dest[0]-not-zero", c2, obs); }
    else for (size_t i = 1; i < dm; i++) if (d[i] && d[i] != (wchar_t)(0x7878 + i)) {
        if (g_noslack) vio("C04", FN[t], "partial-result-left-no-slack-build", "text-does-not-fit", "failed call leaves part of the text behind dest[0]");
        else { snprintf(obs, sizeof obs, "ret=%d (conversion error after partial output), dest[%zu]=%#x still holds formatted text (format %s)", g_ret, i, (unsigned)d[i], fmtname); vio("C04", FN[t], "partial-result-visible", c2, obs); }
        break; }
}
#define ECASE(CLS, FMT, ...) do { \
    g_reflen = swprintf(g_ref, 290, FMT, ##__VA_ARGS__); \
    if (g_reflen < 0) for (int t = 0; t < 4; t++) for (int bos = 0; bos < 2; bos++) { size_t dms[] = {16, 40, 600}; \
        for (unsigned di = 0; di < 3; di++) { size_t dm = dms[di]; \
            g_d = place_end(0, dm * sizeof(wchar_t)); memset((uint8_t *)g_d - 32, CANARY, 32); for (size_t i = 0; i < dm; i++) g_d[i] = 0x7878 + (wchar_t)i; g_dm = dm; \
            size_t B = bos ? dm * sizeof(wchar_t) : BOS_UNKNOWN; probes_reset(); g_ret = -9999; g_cur_fn = FN[t]; g_shm->in_call = 1; \
            switch (t) { case 0: FENCED(g_ret = _swprintf_s_chk(g_d, dm, B, FMT, ##__VA_ARGS__)); break; case 1: FENCED(g_ret = v_vswprintf_s(g_d, dm, B, FMT, ##__VA_ARGS__)); break; \
                         case 2: FENCED(g_ret = _snwprintf_s_chk(g_d, dm, B, FMT, ##__VA_ARGS__)); break; default: FENCED(g_ret = v_vsnwprintf_s(g_d, dm, B, FMT, ##__VA_ARGS__)); break; } \
            after_error(t, CLS, bos, #FMT); } } } while (0)

static void wide_output(void) {
    ECASE("encoding-error", L"abc%s", "\xff\xfe");
    ECASE("encoding-error", L"%d:%s|tail", 42, "ok\xc3");
    ECASE("encoding-error", L"%s", "\x80");
    WCASE("literal", L"plain text");
    WCASE("literal", L"");
    WCASE("percent", L"100%%");
    WCASE("int", L"%d", 0); WCASE("int", L"%d", -2147483647 - 1); WCASE("int", L"[%5d]", 42); WCASE("int", L"[%-5d]", 42); WCASE("int", L"%05d|%+d", 42, 7);
    WCASE("int", L"%x-%X-%o", 255, 255, 8); WCASE("int", L"%#x", 255); WCASE("int", L"%lld", 9223372036854775807LL); WCASE("int", L"%hhd %hd", 300, 70000); WCASE("int", L"%zu %td", (size_t)12345, (ptrdiff_t)-5);
    WCASE("int", L"%*d", 7, 3); WCASE("int", L"%.*d", 4, 3); WCASE("int", L"%30d", 1); WCASE("int", L"%u", 4294967295u);
    WCASE("wstr", L"%ls", L"hello"); WCASE("wstr", L"%ls", L""); WCASE("wstr", L"[%8ls]", L"abc"); WCASE("wstr", L"[%-8ls]", L"abc"); WCASE("wstr", L"%.2ls", L"abcdef"); WCASE("wstr", L"%ls%ls", L"ab", L"cd");
    WCASE("wstr", L"%ls", L"grüß 中文"); WCASE("wstr", L"%ls", L"0123456789012345678901234567890123456789012345678901234567890123456789");
    WCASE("str", L"%s", "narrow"); WCASE("str", L"%.3s", "narrow"); WCASE("str", L"%10s|", "x"); WCASE("str", L"%s", "gr\xc3\xbc\xc3\x9f");
    WCASE("char", L"%lc", (wint_t)L'Z'); WCASE("char", L"%lc", (wint_t)0x4e2d); WCASE("char", L"%c", 'q'); WCASE("char", L"%3lc|", (wint_t)L'y');
    WCASE("float", L"%f", 3.5); WCASE("float", L"%.2f", -0.005); WCASE("float", L"%e", 12345.678); WCASE("float", L"%g", 0.0001); WCASE("float", L"%10.3f|", 2.0); WCASE("float", L"%Lf", 1.25L); WCASE("float", L"%f", 1e30);
    WCASE("pointer", L"%p", (void *)0);
    WCASE("mixed", L"%d:%ls:%s:%lc:%x", 17, L"w", "n", (wint_t)L'c', 48879);
    WCASE("mixed", L"id=%05d name=%-6ls|%3s|", 7, L"ab", "z");
}

/* ------------------------------------------------------------------ scanf_s on valid input */
static FILE *g_tf; static char g_inpath[64];
static void set_file(FILE *f, const char *text) { rewind(f); if (ftruncate(fileno(f), 0)) {} fputs(text, f); fflush(f); rewind(f); }
static int v_vsscanf_s(const char *b, const char *f, ...) { va_list ap; va_start(ap, f); int r = vsscanf_s(b, f, ap); va_end(ap); return r; }
static int v_vfscanf_s(FILE *s, const char *f, ...) { va_list ap; va_start(ap, f); int r = vfscanf_s(s, f, ap); va_end(ap); return r; }
static int v_vscanf_s(const char *f, ...) { va_list ap; va_start(ap, f); int r = vscanf_s(f, ap); va_end(ap); return r; }
static int v_vswscanf_s(const wchar_t *b, const wchar_t *f, ...) { va_list ap; va_start(ap, f); int r = vswscanf_s(b, f, ap); va_end(ap); return r; }
static const char *SN[8] = {"sscanf_s", "vsscanf_s", "fscanf_s", "vfscanf_s", "scanf_s", "vscanf_s", "swscanf_s", "vswscanf_s"};
static void scan_check(int t, const char *cls, int ret, int refret, int same, const char *in, const char *fmt) {
    char obs[300]; int hc = g_h.count; n_scanf++; g_shm->in_call = 0;
    {   char b[160]; snprintf(b, sizeof b, "%s;%s;%d;%d;%d", SN[t], cls, ret, refret, hc); distinct_add(hash_str(b)); }
    if (g_fence.faulted) { snprintf(obs, sizeof obs, "%s fault at %p on input '%s' format '%s'", g_fence.is_write ? "WRITE" : "READ", (void *)g_fence.addr, in, fmt); vio(g_fence.is_write ? "C01" : "C02", SN[t], g_fence.is_write ? "W-fault" : "R-fault", cls, obs); return; }
    if (ret != refret || !same) { snprintf(obs, sizeof obs, "input '%s' format '%s': returned %d / values %s; the C library's scanf returns %d", in, fmt, ret, same ? "equal" : "differ", refret); vio("C05", SN[t], "scanf-result-differs-from-C-library", cls, obs); }
    if (refret >= 0 && hc) { snprintf(obs, sizeof obs, "input '%s' format '%s': valid call (returns %d) invoked the handler %d times (%s: %.50s)", in, fmt, ret, hc, errname(g_h.code[0]), g_h.msg[0]); vio("C05", SN[t], "R4-valid-call-reported-as-violation", cls, obs); }
    if (refret == EOF && hc > 1) { snprintf(obs, sizeof obs, "input failure reported %d times", hc); vio("C05", SN[t], "R1-handler-invoked-more-than-once", cls, obs); }
}
#define SCASE(CLS, IN, FMT, NV) do { \
    for (int t = 0; t < 8; t++) { \
        int a = -7, b = -7, ra = -7, rb = -7; char s[40] = "?", rs[40] = "?"; int ret = -99, refret; \
        refret = sscanf(IN, FMT, &ra, rs, &rb); \
        probes_reset(); g_cur_fn = SN[t]; g_shm->in_call = 1; \
        if (t == 2 || t == 3) set_file(g_tf, IN); if (t == 4 || t == 5) { FILE *w = fopen(g_inpath, "w"); if (w) { fputs(IN, w); fclose(w); } if (!freopen(g_inpath, "r", stdin)) { fprintf(stderr, "freopen stdin failed\n"); _exit(3); } } \
        switch (t) { case 0: FENCED(ret = sscanf_s(IN, FMT, &a, s, &b)); break; case 1: FENCED(ret = v_vsscanf_s(IN, FMT, &a, s, &b)); break; \
                     case 2: FENCED(ret = fscanf_s(g_tf, FMT, &a, s, &b)); break; case 3: FENCED(ret = v_vfscanf_s(g_tf, FMT, &a, s, &b)); break; \
                     case 4: FENCED(ret = scanf_s(FMT, &a, s, &b)); break; case 5: FENCED(ret = v_vscanf_s(FMT, &a, s, &b)); break; \
                     case 6: FENCED(ret = swscanf_s(L"" IN, L"" FMT, &a, s, &b)); break; default: FENCED(ret = v_vswscanf_s(L"" IN, L"" FMT, &a, s, &b)); break; } \
        scan_check(t, CLS, ret, refret, a == ra && b == rb && !strcmp(s, rs), IN, FMT); } } while (0)
static void scanf_valid(void) {
    SCASE("int-str-int", "12 abc 34", "%d %s %d", 3);
    SCASE("int-str-int", "  -5 x 0", "%d %s %d", 3);
    SCASE("partial", "12 abc", "%d %s %d", 2);
    SCASE("matching-failure", "zz", "%d %s %d", 0);
    SCASE("input-failure", "", "%d %s %d", -1);
    SCASE("width", "123456 abcdef 7", "%3d %4s %d", 3);
    SCASE("literal", "id=9 n=bob q=1", "id=%d n=%s q=%d", 3);
}

static void body(void *arg, long lo, long hi) {
    (void)arg; (void)hi;
    for (long g = lo; g < 2; g++) { g_shm->cur = g; if (g == 0) wide_output(); else scanf_valid(); }
    __sync_fetch_and_add(&CTR(0), n_calls + n_scanf); __sync_fetch_and_add(&CTR(1), n_fit); __sync_fetch_and_add(&CTR(2), n_nofit); __sync_fetch_and_add(&CTR(4), n_scanf);
    distinct_emit();
}
static void on_death(void *arg, long at, int status, int hung) {
    (void)arg; char key[200], what[300]; CTR(3)++;
    if (!g_shm->in_call) { fprintf(g_out, "{\"t\":\"harness_error\",\"where\":\"wfmt group %ld status %d\"}\n", at, status); fflush(g_out); return; }
    snprintf(key, sizeof key, "%s|worker-%s|%s", at == 0 ? "wide-printf" : "scanf", hung ? "hang" : "death", hung ? "watchdog" : WIFSIGNALED(status) ? strsignal(WTERMSIG(status)) : "exit");
    snprintf(what, sizeof what, "process %s inside a valid %s call (status %#x)", hung ? "hung" : "died", at == 0 ? "wide printf" : "scanf", status);
    report(want("C01") ? "C01" : g_prop, key, what, "{\"harness\":\"wfmt\"}");
}
int main(int argc, char **argv) {
    g_out = fdopen(dup(1), "w");
    for (int i = 1; i < argc; i++) {
        if (!strcmp(argv[i], "--prop")) g_prop = argv[++i];
        else if (!strcmp(argv[i], "--tier")) ++i;
        else if (!strcmp(argv[i], "--seed")) g_seed = strtoull(argv[++i], NULL, 10);
        else if (!strcmp(argv[i], "--worker")) ++i;
        else if (!strcmp(argv[i], "--cfg")) { g_cfg = argv[++i]; g_noslack = !strcmp(g_cfg, "noslack"); }
        else { fprintf(stderr, "unknown arg %s\n", argv[i]); return 2; }
    }
    setlocale(LC_ALL, "C.UTF-8");
    if (!freopen("/dev/null", "w", stdout)) return 2;
    g_tf = tmpfile(); if (!g_tf) return 2;
    { snprintf(g_inpath, sizeof g_inpath, "/tmp/wfmt-stdin-XXXXXX"); int fd = mkstemp(g_inpath); if (fd < 0) return 2; close(fd); }
    arena_init(); fence_init(); shm_init(); probes_install(); fp_init();
    run_supervised(body, on_death, NULL, 0, 2, 20);
    emit_counter("calls", CTR(0)); emit_counter("wide_text_fits", CTR(1)); emit_counter("wide_text_does_not_fit", CTR(2)); emit_counter("scanf_calls", CTR(4)); emit_counter("worker_deaths", CTR(3)); emit_counter("footprint_checks", CTR(60));
    fprintf(g_out, "{\"t\":\"end\"}\n"); fflush(g_out);
    unlink(g_inpath);
    return 0;
}
