/* C18 "solo" client: ONE victim with ONE erase call in the whole program (-DKIND=k -DSTORAGE=s), compiled at the optimisation
 * level under test together with the library (LTO configurations inline the erase function and its primitive here).
 * The secret is derived in place, so the buffer's address never reaches code the optimiser cannot see before the erase
 * call; nothing reads the buffer afterwards.  The observer (solo_main.c, -O0, not part of the LTO unit) searches the dead
 * stack region / the recycled heap block / the static array for 8-byte windows of the secret. */
#include <stdlib.h>
#include <string.h>
#include <stdint.h>
#include "safe_mem_lib.h"
#include "safe_str_lib.h"

#ifndef KIND
#define KIND 0
#endif
#ifndef STORAGE
#define STORAGE 0
#endif
#define NI __attribute__((noinline))
#define CAP 1200

volatile unsigned g_solo_seed;
volatile unsigned g_solo_sink;
volatile int g_solo_rc;
const int g_solo_kind = KIND, g_solo_storage = STORAGE;
#if STORAGE == 2
unsigned char g_solo_static[CAP + 64] __attribute__((aligned(16)));
#endif

#if KIND == 0
#define ERASE(p, n) memset_s(p, n, 0, n)
#elif KIND == 1
#define ERASE(p, n) memzero_s(p, n)
#elif KIND == 2
#define ERASE(p, n) memset16_s((uint16_t *)(p), n, 0, (n) / 2)
#elif KIND == 3
#define ERASE(p, n) memset32_s((uint32_t *)(p), n, 0, (n) / 4)
#elif KIND == 4
#define ERASE(p, n) memzero16_s((uint16_t *)(p), (n) / 2)
#elif KIND == 5
#define ERASE(p, n) memzero32_s((uint32_t *)(p), (n) / 4)
#elif KIND == 6
#define ERASE(p, n) strzero_s((char *)(p), n)
#else
#define ERASE(p, n) (memset(p, 0, n), 0) /* positive control */
#endif

#define DERIVE_AND_USE(p, n)                                                                      \
    do {                                                                                          \
        unsigned s = g_solo_seed, h = 0;                                                          \
        size_t i;                                                                                 \
        for (i = 0; i < (n); i++) { s = s * 1103515245u + 12345u; (p)[i] = (unsigned char)(0x80 | (s >> 16)); } \
        if (KIND == 6) (p)[(n)-1] = 0;                                                            \
        for (i = 0; i < (n); i++) h = h * 31 + (p)[i];                                            \
        g_solo_sink = h;                                                                          \
    } while (0)

/* STORAGE 3 is the constant-size form (sizeof key), like a session key on the stack; exactly one erase call per program */
NI void solo_victim(size_t n, size_t off) {
#if STORAGE == 3
    uint32_t key[16];
    unsigned char *p = (unsigned char *)key;
    (void)n; (void)off;
    DERIVE_AND_USE(p, sizeof key);
    g_solo_rc = ERASE(p, sizeof key);
#elif STORAGE == 0
    unsigned char buf[CAP + 64] __attribute__((aligned(16)));
    unsigned char *p = buf + 32 + off;
    DERIVE_AND_USE(p, n);
    g_solo_rc = ERASE(p, n);
#elif STORAGE == 1
    unsigned char *buf = malloc(CAP + 64);
    unsigned char *p;
    if (!buf) { g_solo_rc = -1; return; }
    p = buf + 32 + off;
    DERIVE_AND_USE(p, n);
    g_solo_rc = ERASE(p, n);
    free(buf);
#else
    unsigned char *p = g_solo_static + 32 + off;
    DERIVE_AND_USE(p, n);
    g_solo_rc = ERASE(p, n);
#endif
}
