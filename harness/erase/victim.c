/* C18 client: compiled at the optimisation level under test (optionally with -flto).  In every victim the
 * erased buffer is dead after the erase call. */
#include <stdlib.h>
#include <string.h>
#include "safe_mem_lib.h"
#include "safe_str_lib.h"

extern void fill_secret(void *p, size_t n, int string_mode);
#define PAD 32
#define NI __attribute__((noinline))
static unsigned char g_static[PAD + 4200 + 16 + PAD] __attribute__((aligned(16)));

#define ERASE_CALL(kind, p, n, val)                                                              \
    switch (kind) {                                                                              \
    case 0: memset_s(p, n, val, n); break;                                                       \
    case 1: memzero_s(p, n); break;                                                              \
    case 2: memset16_s((uint16_t *)(p), n, (uint16_t)(val), (n) / 2); break;                     \
    case 3: memset32_s((uint32_t *)(p), n, (uint32_t)(val), (n) / 4); break;                     \
    case 4: memzero16_s((uint16_t *)(p), (n) / 2); break;                                        \
    case 5: memzero32_s((uint32_t *)(p), (n) / 4); break;                                        \
    case 6: strzero_s((char *)(p), n); break;                                                    \
    default: memset(p, val, n); break; /* 7: positive control */                                 \
    }

#define VICTIMS(kind)                                                                            \
    NI void v_stack_##kind(size_t n, size_t off, int val) {                                      \
        unsigned char buf[PAD + 4200 + 16 + PAD] __attribute__((aligned(16)));                   \
        unsigned char *p = buf + PAD + off;                                                      \
        fill_secret(p, n, kind == 6);                                                            \
        ERASE_CALL(kind, p, n, val)                                                              \
    }                                                                                            \
    NI void v_heap_##kind(size_t n, size_t off, int val) {                                       \
        unsigned char *buf = malloc(PAD + 4200 + 16 + PAD + 64);                                 \
        unsigned char *p = buf + 64 + PAD + off;   /* clear of the allocator's own link words */ \
        fill_secret(p, n, kind == 6);                                                            \
        ERASE_CALL(kind, p, n, val)                                                              \
        free(buf);                                                                               \
    }                                                                                            \
    NI void v_static_##kind(size_t n, size_t off, int val) {                                     \
        unsigned char *p = g_static + PAD + off;                                                 \
        fill_secret(p, n, kind == 6);                                                            \
        ERASE_CALL(kind, p, n, val)                                                              \
    }
VICTIMS(0) VICTIMS(1) VICTIMS(2) VICTIMS(3) VICTIMS(4) VICTIMS(5) VICTIMS(6) VICTIMS(7)

/* large requests (above 65535 elements): a static buffer, the erase call is the last use */
#define BIGCAP (1u << 20)
static unsigned char g_big[PAD + BIGCAP + 16 + PAD] __attribute__((aligned(16)));
#define BIGV(kind) NI void v_big_##kind(size_t n, size_t off, int val) { unsigned char *p = g_big + PAD + off; fill_secret(p, n, kind == 6); ERASE_CALL(kind, p, n, val) }
BIGV(0) BIGV(1) BIGV(2) BIGV(3) BIGV(4) BIGV(5) BIGV(7)
typedef void (*victim_fn)(size_t, size_t, int);
victim_fn g_big_victims[8] = {v_big_0, v_big_1, v_big_2, v_big_3, v_big_4, v_big_5, 0, v_big_7};
victim_fn g_victims[8][3] = {
    {v_stack_0, v_heap_0, v_static_0}, {v_stack_1, v_heap_1, v_static_1}, {v_stack_2, v_heap_2, v_static_2}, {v_stack_3, v_heap_3, v_static_3},
    {v_stack_4, v_heap_4, v_static_4}, {v_stack_5, v_heap_5, v_static_5}, {v_stack_6, v_heap_6, v_static_6}, {v_stack_7, v_heap_7, v_static_7} };
