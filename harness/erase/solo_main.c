/* C18 solo observer (compiled -O0, never part of the LTO unit): runs the single victim of solo.c on a deep stack and then
 * searches the dead stack region / the recycled heap block / the static array for 8-byte windows of the secret. */
#define _GNU_SOURCE
#include <stdio.h>
#include <stdlib.h>
#include <string.h>
#include <alloca.h>
extern volatile unsigned g_solo_seed; extern volatile int g_solo_rc; extern const int g_solo_kind, g_solo_storage;
extern void solo_victim(size_t, size_t);
extern unsigned char g_solo_static[] __attribute__((weak));
#define CAP 1200
#define REGION (40 * 1024)
static unsigned char *g_lo, *g_hi;
static const char *FN[8] = {"memset_s", "memzero_s", "memset16_s", "memset32_s", "memzero16_s", "memzero32_s", "strzero_s", "CONTROL-plain-memset"};
static const char *ST[4] = {"stack", "heap-then-free", "static", "stack-constant-size"};

__attribute__((noinline)) static void pretouch(void) { volatile char a[48 * 1024]; for (size_t i = 0; i < sizeof a; i++) a[i] = 0; }
__attribute__((noinline)) static void run_deep_solo(size_t n, size_t off) {
    volatile char *shift = alloca(96 * 1024); shift[0] = 1; shift[96 * 1024 - 1] = 1;
    pretouch();
    solo_victim(n, off);
    g_hi = (unsigned char *)shift; g_lo = g_hi - REGION;
}
int main(int argc, char **argv) {
    int thorough = argc > 1 && !strcmp(argv[1], "thorough");
    static const size_t NS_T[] = {8, 16, 24, 32, 40, 48, 56, 64, 72, 96, 128, 200, 256, 512, 1024}, NS_Q[] = {8, 16, 32, 64, 128, 1024};
    static const size_t OFF_T[] = {0, 1, 2, 3, 4, 5, 6, 7, 8, 12}, OFF_Q[] = {0, 1, 2, 4};
    const size_t *NS = thorough ? NS_T : NS_Q, *OFF = thorough ? OFF_T : OFF_Q;
    int nn = thorough ? 15 : 6, no = thorough ? 10 : 4, k = g_solo_kind, st = g_solo_storage;
    int ew = (k == 2 || k == 4) ? 2 : (k == 3 || k == 5) ? 4 : 1;
    long cases = 0, bad = 0, windows = 0, found = 0, rc_bad = 0; size_t fn_ = 0, fo = 0; unsigned seed = 0x5eed1234u;
    setvbuf(stdout, NULL, _IONBF, 0);
    for (int ni = 0; ni < nn; ni++) for (int oi = 0; oi < no; oi++) {
        size_t n = NS[ni], off = OFF[oi], sz = n ? n : 64; unsigned char ref[1100]; unsigned s; long f = 0, w = 0;
        if (off % ew) continue;
        if (st == 3) { if (ni >= 4 || oi) continue; n = 0; }      /* constant size: four repetitions with different secrets */
        seed = seed * 2654435761u + 977u; g_solo_seed = seed; g_solo_rc = -12345;
        run_deep_solo(n, off);
        unsigned char *lo, *hi, *q = NULL;
        if (st == 0 || st == 3) { lo = g_lo; hi = g_hi; }
        else if (st == 1) { q = malloc(CAP + 64); lo = q; hi = q + CAP + 64; }
        else { lo = g_solo_static; hi = lo + CAP + 64; }
        s = seed; for (size_t i = 0; i < sz; i++) { s = s * 1103515245u + 12345u; ref[i] = (unsigned char)(0x80 | (s >> 16)); }
        for (size_t o = 0; o + 8 <= sz - (k == 6 ? 1 : 0); o += 8) { w++; if (memmem(lo, (size_t)(hi - lo), ref + o, 8)) f++; }
        if (q) { memset(q, 0, CAP + 64); free(q); }
        cases++; windows += w; found += f; if (g_solo_rc != 0) rc_bad++;
        if (f && !bad) { fn_ = n; fo = off; }
        if (f) bad++;
    }
    printf("{\"t\":\"solo\",\"fn\":\"%s\",\"storage\":\"%s\",\"cases\":%ld,\"bad_cases\":%ld,\"windows\":%ld,\"windows_found\":%ld,\"rc_bad\":%ld,\"first_n\":%zu,\"first_off\":%zu}\n",
           FN[k], ST[st], cases, bad, windows, found, rc_bad, fn_, fo);
    printf("{\"t\":\"end\"}\n");
    return 0;
}
