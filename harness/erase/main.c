/* C18 driver (compiled -O0, no LTO): for every (function, storage, n, alignment, value) run the victim on a deep stack,
 * then inspect the dead buffer out-of-band. */
#include <stdio.h>
#include <stdlib.h>
#include <string.h>
typedef void (*victim_fn)(size_t, size_t, int);
extern victim_fn g_victims[8][3];
extern victim_fn g_big_victims[8];
extern void run_deep(victim_fn f, size_t n, size_t off, int val);
extern void probe(int val, int elem_width, long *surviving, long *outside);
static const char *FN[8] = {"memset_s", "memzero_s", "memset16_s", "memset32_s", "memzero16_s", "memzero32_s", "strzero_s", "CONTROL-plain-memset"};
static const char *ST[3] = {"stack", "heap-then-free", "static"};
int main(int argc, char **argv) {
    int thorough = argc > 1 && !strcmp(argv[1], "thorough");
    static const size_t NS_T[] = {1,2,3,4,5,6,7,8,9,10,11,12,13,14,15,16,17,18,19,20,21,22,23,24,25,26,27,28,29,30,31,32,33,34,35,36,37,38,39,40,63,64,65,255,4096};
    static const size_t NS_Q[] = {1,2,3,4,7,8,9,15,16,17,31,32,33,40,63,64,65,255,4096};
    const size_t *NS = thorough ? NS_T : NS_Q; int nn = thorough ? sizeof NS_T / sizeof NS_T[0] : sizeof NS_Q / sizeof NS_Q[0];
    static const unsigned VALS[3][7] = { {0, 0xFF, 0x5A, 0x80, 0x7F, 0xFE, 0x01}, {0, 0xFFFF, 0x5A5A, 0x8001, 0x00FF, 0xFF00, 0x7FFE}, {0, 0xFFFFFFFFu, 0x5A5A5A5Au, 0x80000001u, 0x000000FFu, 0xFF000000u, 0x7FFFFFFEu} };
    for (int k = 0; k < 8; k++) for (int st = 0; st < 3; st++) {
        long cases = 0, bad_cases = 0, surv_total = 0, bytes_total = 0, outside_total = 0; size_t wn = 0, woff = 0; int wval = 0; long wsurv = 0;
        int ew = (k == 2 || k == 4) ? 2 : (k == 3 || k == 5) ? 4 : 1;
        /* the main sweep (7 fill values), then for the byte-valued memset_s / the control every fill value 0..255 on a few shapes */
        for (int pass = 0; pass < 2; pass++)
        for (int ni = 0; ni < (pass ? 3 : nn); ni++) for (size_t off = 0; off < 8; off += (pass ? 3 : 1)) for (int vi = 0; vi < (pass ? 256 : 7); vi++) {
            static const size_t NS_V[3] = {8, 24, 41};
            size_t n = pass ? NS_V[ni] : NS[ni]; int val = pass ? vi : (int)VALS[ew == 1 ? 0 : ew == 2 ? 1 : 2][vi];
            if (pass && !(k == 0 || k == 7)) continue;
            if (off % ew) continue; if (n % ew) n += ew - n % ew;
            if ((k == 1 || k == 4 || k == 5 || k == 6) && val) continue;            /* zeroing functions */
            int fill = val;
            run_deep(g_victims[k][st], n, off, fill);
            long s, o; probe(fill, ew, &s, &o);
            cases++; bytes_total += (long)n; surv_total += s; outside_total += o;
            if (s || o) { if (!bad_cases) { wn = n; woff = off; wval = val; wsurv = s; } bad_cases++; }
        }
        printf("{\"t\":\"erase\",\"fn\":\"%s\",\"storage\":\"%s\",\"cases\":%ld,\"bad_cases\":%ld,\"bytes\":%ld,\"surviving\":%ld,\"outside_changed\":%ld,\"first_n\":%zu,\"first_off\":%zu,\"first_val\":%d,\"first_surviving\":%ld}\n",
               FN[k], ST[st], cases, bad_cases, bytes_total, surv_total, outside_total, wn, woff, wval, wsurv);
    }
    /* large requests: element counts on both sides of 65536 and well above it (strzero_s is limited to RSIZE_MAX_STR) */
    for (int k = 0; k < 8; k++) { if (!g_big_victims[k]) continue;
        static const size_t BN[] = {65535, 65536, 65537, 131072, 200000};
        int ew = (k == 2 || k == 4) ? 2 : (k == 3 || k == 5) ? 4 : 1; long cases = 0, bad_cases = 0, surv_total = 0, bytes_total = 0, outside_total = 0; size_t wn = 0; long wsurv = 0;
        for (int bi = 0; bi < 5; bi++) for (int vi = 0; vi < 2; vi++) {
            size_t n = BN[bi] * (size_t)ew; int val = vi ? 0x5A : 0; if ((k == 1 || k == 4 || k == 5) && val) continue; if (n > (1u << 20)) continue;
            int fill = ew == 1 ? val : ew == 2 ? (val | val << 8) : (int)((unsigned)val * 0x01010101u);
            run_deep(g_big_victims[k], n, 0, fill);
            long s_, o_; probe(fill, ew, &s_, &o_);
            cases++; bytes_total += (long)n; surv_total += s_; outside_total += o_;
            if (s_ || o_) { if (!bad_cases) { wn = n; wsurv = s_; } bad_cases++; }
        }
        printf("{\"t\":\"erase\",\"fn\":\"%s\",\"storage\":\"static-large\",\"cases\":%ld,\"bad_cases\":%ld,\"bytes\":%ld,\"surviving\":%ld,\"outside_changed\":%ld,\"first_n\":%zu,\"first_off\":0,\"first_val\":0,\"first_surviving\":%ld}\n",
               FN[k], cases, bad_cases, bytes_total, surv_total, outside_total, wn, wsurv);
    }
    printf("{\"t\":\"end\"}\n");
    return 0;
}
