/* C18 probe: compiled at -O0 without LTO.  Opaque helpers the optimiser of the client cannot see through. */
#include <stddef.h>
#include <string.h>
#include <stdio.h>
#include <stdlib.h>
#include <alloca.h>

volatile unsigned char *g_rec_addr; size_t g_rec_n; unsigned char g_rec_pat;
#define PAD 32

/* fills [p-PAD, p+n+PAD) : canary 0xC3 around, secret pattern inside; records the address */
void fill_secret(void *p, size_t n, int string_mode) {
    unsigned char *q = p; size_t i;
    for (i = 0; i < PAD; i++) { q[-(long)PAD + (long)i] = 0xC3; q[n + i] = 0xC3; }
    for (i = 0; i < n; i++) q[i] = (unsigned char)(0xA1 + (i % 23));     /* never 0, never 0xFF/0x5A/0xC3 */
    if (string_mode && n) q[n - 1] = 0;                                   /* strzero_s wants a terminated string */
    g_rec_addr = q; g_rec_n = n;
}
/* after the victim is gone: how many of the n bytes do not hold `val`, how many canary bytes changed */
void probe(int val, int elem_width, long *surviving, long *outside) {
    volatile unsigned char *q = g_rec_addr; size_t i; long s = 0, o = 0;
    for (i = 0; i < g_rec_n; i++) { unsigned char want = (unsigned char)(val >> (8 * (i % elem_width))); if (q[i] != want) s++; }
    for (i = 0; i < PAD; i++) { if (q[-(long)PAD + (long)i] != 0xC3) o++; if (q[g_rec_n + i] != 0xC3) o++; }
    *surviving = s; *outside = o;
}
/* runs fn(arg...) on a stack 96 KiB deeper than the caller's, so that the caller's later calls do not overwrite the dead frame */
typedef void (*victim_fn)(size_t, size_t, int);
void run_deep(victim_fn f, size_t n, size_t off, int val) {
    volatile char *shift = alloca(96 * 1024); shift[0] = 1; shift[96 * 1024 - 1] = 1;
    f(n, off, val);
}
