/* C13: constraint-handler registration as a per-thread override of a global.
 * Histories of {set_/thrd_set_ x str/mem registrations (8 probe handlers or NULL), violating str/mem calls,
 * thread creation} are executed by real threads; after every violating call the probe that ran (identity,
 * thread, code) is compared with a 30-line sequential model; every registration's return value is compared
 * with the model's previous registration.  Phases: (1) complete sweep of short histories on 2 threads,
 * (2) random longer histories over up to 6 threads incl. thread creation by workers, serialised by the driver,
 * (3) concurrent phase: threads hammer thread-local registrations + violations simultaneously (no global
 * changes), each checking its own expectations - isolation under real concurrency. */
#include "common.h"
#include <pthread.h>
#include <time.h>
#include <semaphore.h>

static const char *g_cfg = "plain"; static int g_tier;
static int want(const char *p) { return !strcmp(g_prop, "ALL") || !strcmp(g_prop, p); }

#define NPROBE 8
#define MAXT 8
static __thread int t_last_id, t_last_kind, t_last_code, t_count;   /* what ran during the current call on this thread */
static __thread int t_index = -1;
#define PS(i) static void ps##i(const char *m, void *p, errno_t e) { (void)m; (void)p; t_last_id = i; t_last_kind = 's'; t_last_code = e; t_count++; }
#define PM(i) static void pm##i(const char *m, void *p, errno_t e) { (void)m; (void)p; t_last_id = i; t_last_kind = 'm'; t_last_code = e; t_count++; }
PS(0) PS(1) PS(2) PS(3) PS(4) PS(5) PS(6) PS(7) PM(0) PM(1) PM(2) PM(3) PM(4) PM(5) PM(6) PM(7)
static constraint_handler_t PROBE[2][NPROBE] = {{ps0, ps1, ps2, ps3, ps4, ps5, ps6, ps7}, {pm0, pm1, pm2, pm3, pm4, pm5, pm6, pm7}};

/* model: -2 = never registered, -1 = default (after NULL), 0..7 = probe id */
#define NEVER (-2)
#define DEFLT (-1)
static int m_global[2] = {NEVER, NEVER};
static int m_local[MAXT][2];
static int m_alive[MAXT];
static int m_inherit_candidate[MAXT][2];   /* creator's local at creation time (inheritance is left open by the property) */

enum { OP_SETG, OP_SETL, OP_VIOL, OP_CREATE, OP_EXIT };
typedef struct { int op, kind, h, thread, newthread; } op_t;   /* h: -1 = NULL */

static unsigned long long n_hist, n_ops, n_viol, n_reg, n_create, n_inherited, n_not_inherited, n_conc_ops;
static char g_hist[1200];   /* textual history so far (witness) */
static void hist_add(const op_t *o) {
    static const char *kn[2] = {"str", "mem"};
    if (strlen(g_hist) > sizeof g_hist - 60) return;
    switch (o->op) {
    case OP_SETG: sb_add(g_hist, sizeof g_hist, "T%d:set_%s(%s%d);", o->thread, kn[o->kind], o->h < 0 ? "NULL" : "h", o->h < 0 ? 0 : o->h); break;
    case OP_SETL: sb_add(g_hist, sizeof g_hist, "T%d:thrd_set_%s(%s%d);", o->thread, kn[o->kind], o->h < 0 ? "NULL" : "h", o->h < 0 ? 0 : o->h); break;
    case OP_VIOL: sb_add(g_hist, sizeof g_hist, "T%d:violate_%s;", o->thread, kn[o->kind]); break;
    case OP_CREATE: sb_add(g_hist, sizeof g_hist, "T%d:create(T%d);", o->thread, o->newthread); break;
    }
}
static void vio(const char *rule, const op_t *o, const char *obs) {
    char key[200], what[1600], w[1700]; static const char *kn[2] = {"str", "mem"};
    if (!want("C13")) return;
    snprintf(key, sizeof key, "%s|%s|%s", rule, kn[o->kind], o->op == OP_SETG ? "global" : o->op == OP_SETL ? "thread-local" : "violation");
    snprintf(what, sizeof what, "%s: %s; history: %s", rule, obs, g_hist);
    snprintf(w, sizeof w, "{\"harness\":\"handlers\",\"cfg\":\"%s\",\"seed\":%llu,\"history\":\"%s\",\"obs\":\"%s\",\"replay\":\"handlers --cfg %s --seed %llu --tier %s\"}", g_cfg, (unsigned long long)g_seed, g_hist, obs, g_cfg, (unsigned long long)g_seed, g_tier ? "thorough" : "quick");
    report("C13", key, what, w);
}

/* ---- worker threads, serialised by the driver through semaphores */
typedef struct { pthread_t th; sem_t go, done; op_t op; constraint_handler_t ret; int ran_id, ran_kind, ran_code, ran_count; int index; } worker_t;
static worker_t W[MAXT];
static void *worker_main(void *arg);
static void exec_op(worker_t *w) {
    op_t *o = &w->op;
    t_count = 0; t_last_id = -9; t_last_kind = 0; t_last_code = 0;
    switch (o->op) {
    case OP_SETG: w->ret = o->kind ? set_mem_constraint_handler_s(o->h < 0 ? NULL : PROBE[1][o->h]) : set_str_constraint_handler_s(o->h < 0 ? NULL : PROBE[0][o->h]); break;
    case OP_SETL: w->ret = o->kind ? thrd_set_mem_constraint_handler_s(o->h < 0 ? NULL : PROBE[1][o->h]) : thrd_set_str_constraint_handler_s(o->h < 0 ? NULL : PROBE[0][o->h]); break;
    case OP_VIOL: { char d[4] = "abc"; if (o->kind) _memcpy_s_chk(NULL, 1, d, 1, BOS_UNKNOWN, BOS_UNKNOWN); else _strcpy_s_chk(NULL, 1, d, BOS_UNKNOWN); } break;
    case OP_CREATE: { worker_t *n = &W[o->newthread]; n->index = o->newthread; sem_init(&n->go, 0, 0); sem_init(&n->done, 0, 0); pthread_create(&n->th, NULL, worker_main, n); } break;
    }
    w->ran_id = t_last_id; w->ran_kind = t_last_kind; w->ran_code = t_last_code; w->ran_count = t_count;
}
static void *worker_main(void *arg) {
    worker_t *w = arg; t_index = w->index;
    for (;;) { sem_wait(&w->go); if (w->op.op == OP_EXIT) { sem_post(&w->done); return NULL; } exec_op(w); sem_post(&w->done); }
}
static void dispatch(const op_t *o) {
    worker_t *w = &W[o->thread]; w->op = *o;
    if (o->thread == 0) exec_op(w); else { sem_post(&w->go); sem_wait(&w->done); }
}

static int same_handler(constraint_handler_t got, int model, int kind) {
    if (model >= 0) return got == PROBE[kind][model];
    if (model == NEVER) return got == NULL;
    return got == NULL || got == ignore_handler_s;          /* after a NULL registration: NULL or the default's address */
}

/* executes one op on the real library and checks it against the model */
static void step(const op_t *o) {
    char obs[300]; static const char *kn[2] = {"str", "mem"};
    hist_add(o); n_ops++;
    dispatch(o);
    worker_t *w = &W[o->thread];
    switch (o->op) {
    case OP_SETG: n_reg++;
        if (!same_handler(w->ret, m_global[o->kind], o->kind)) { snprintf(obs, sizeof obs, "set_%s_constraint_handler_s returned %p, previous global registration was %s%d", kn[o->kind], (void *)(uintptr_t)w->ret, m_global[o->kind] >= 0 ? "h" : m_global[o->kind] == DEFLT ? "default" : "none", m_global[o->kind]); vio("registration-return-wrong", o, obs); }
        m_global[o->kind] = o->h < 0 ? DEFLT : o->h; break;
    case OP_SETL: n_reg++;
        {   int prev = m_local[o->thread][o->kind];
            int ok = same_handler(w->ret, prev, o->kind);
            if (!ok && prev == NEVER && m_inherit_candidate[o->thread][o->kind] != NEVER && same_handler(w->ret, m_inherit_candidate[o->thread][o->kind], o->kind)) ok = 1;   /* inheritance left open */
            if (!ok) { snprintf(obs, sizeof obs, "thrd_set_%s_constraint_handler_s on T%d returned %p, previous thread-local registration was %d", kn[o->kind], o->thread, (void *)(uintptr_t)w->ret, prev); vio("registration-return-wrong", o, obs); }
            m_local[o->thread][o->kind] = o->h < 0 ? DEFLT : o->h; m_inherit_candidate[o->thread][o->kind] = NEVER; }
        break;
    case OP_VIOL: n_viol++;
        {   int loc = m_local[o->thread][o->kind], exp;     /* expected probe id, or -1 = none (default ignore) */
            int alt = -3;
            if (loc != NEVER) exp = loc; else { exp = m_global[o->kind] == NEVER ? DEFLT : m_global[o->kind];
                if (m_inherit_candidate[o->thread][o->kind] != NEVER) alt = m_inherit_candidate[o->thread][o->kind]; }
            int got = w->ran_count ? w->ran_id : DEFLT;
            if (w->ran_count > 1) { snprintf(obs, sizeof obs, "%d handler invocations for one violation", w->ran_count); vio("handler-invoked-more-than-once", o, obs); }
            else if (w->ran_count && w->ran_kind != (o->kind ? 'm' : 's')) { snprintf(obs, sizeof obs, "a %s violation on T%d ran a handler registered for the other kind (probe %c%d)", kn[o->kind], o->thread, w->ran_kind, w->ran_id); vio("string-and-memory-registrations-interfere", o, obs); }
            else if (got != exp && got != alt) { snprintf(obs, sizeof obs, "%s violation on T%d ran %s%d, model prescribes %s%d (thread-local %d, global %d)", kn[o->kind], o->thread, got >= 0 ? "probe h" : "no probe ", got, exp >= 0 ? "probe h" : "no probe ", exp, loc, m_global[o->kind]); vio(got == DEFLT ? "handler-not-invoked" : "wrong-handler-invoked", o, obs); }
            else if (alt != -3 && alt != exp) { if (got == alt) n_inherited++; else n_not_inherited++; }
            if (w->ran_count == 1 && w->ran_code != ESNULLP) { snprintf(obs, sizeof obs, "handler received code %d for a NULL-dest violation", w->ran_code); vio("wrong-code-passed", o, obs); }
            char b[96]; snprintf(b, sizeof b, "v;%d;%d;%d;%d;%d", o->kind, loc, m_global[o->kind], o->thread != 0, got); distinct_add(hash_str(b));
        }
        break;
    case OP_CREATE: n_create++;
        m_alive[o->newthread] = 1;
        for (int k = 0; k < 2; k++) { m_local[o->newthread][k] = NEVER; m_inherit_candidate[o->newthread][k] = m_local[o->thread][k]; }
        break;
    }
}
static void join_workers(void) {
    for (int t = MAXT - 1; t >= 1; t--) if (m_alive[t]) { W[t].op.op = OP_EXIT; sem_post(&W[t].go); sem_wait(&W[t].done); pthread_join(W[t].th, NULL); m_alive[t] = 0; }
}

/* ---- phase 3: real concurrency on thread-local state */
static volatile int g_conc_fail; static char g_conc_obs[200];
static pthread_barrier_t g_bar;
static void *conc_main(void *arg) {
    int id = (int)(intptr_t)arg; rng_t g = rng_from(g_seed, 1300, (uint64_t)id);
    int loc[2] = {NEVER, NEVER}; long iters = g_tier ? 200000 : 30000;
    pthread_barrier_wait(&g_bar);
    for (long i = 0; i < iters && !g_conc_fail; i++) {
        int k = (int)rnd_n(&g, 2), what = (int)rnd_n(&g, 3);
        if (what == 0) { int h = (int)rnd_n(&g, NPROBE + 1) - 1; constraint_handler_t r = k ? thrd_set_mem_constraint_handler_s(h < 0 ? NULL : PROBE[1][h]) : thrd_set_str_constraint_handler_s(h < 0 ? NULL : PROBE[0][h]);
            if (!same_handler(r, loc[k], k)) { g_conc_fail = 1; snprintf(g_conc_obs, sizeof g_conc_obs, "thread %d: thrd_set returned %p, own previous registration was %d (iteration %ld)", id, (void *)(uintptr_t)r, loc[k], i); }
            loc[k] = h < 0 ? DEFLT : h;
        } else { char d[4] = "abc"; t_count = 0; t_last_id = -9;
            if (k) _memcpy_s_chk(NULL, 1, d, 1, BOS_UNKNOWN, BOS_UNKNOWN); else _strcpy_s_chk(NULL, 1, d, BOS_UNKNOWN);
            int exp = loc[k] != NEVER ? loc[k] : (m_global[k] == NEVER ? DEFLT : m_global[k]); int got = t_count ? t_last_id : DEFLT;
            if (got != exp || (t_count && t_last_kind != (k ? 'm' : 's'))) { g_conc_fail = 2; snprintf(g_conc_obs, sizeof g_conc_obs, "thread %d: violation ran handler %d (kind %c), expected %d, under concurrent registrations by other threads (iteration %ld)", id, got, t_last_kind ? t_last_kind : '-', exp, i); }
        }
        __sync_fetch_and_add(&n_conc_ops, 1);
    }
    return NULL;
}

/* ---- phase 4: a violation on thread B while thread A is still inside its handler (deterministic: A's handler waits for B) */
static volatile int g_a_inside, g_b_done; static __thread int t_blocking_role;
static void blocking_probe(const char *m, void *p, errno_t e) {
    (void)m; (void)p; (void)e; t_count++; t_last_id = 100;
    if (t_blocking_role == 1) { g_a_inside = 1; for (long spin = 0; !g_b_done && spin < 2000; spin++) { struct timespec ts = {0, 1000 * 1000}; nanosleep(&ts, NULL); } }
}
typedef struct { int kind; int b_count; int b_id; } p4_t;
static void *p4_a(void *arg) { p4_t *c = arg; char d[4] = "abc"; t_blocking_role = 1;
    if (c->kind) thrd_set_mem_constraint_handler_s(blocking_probe); else thrd_set_str_constraint_handler_s(blocking_probe);
    if (c->kind) _memcpy_s_chk(NULL, 1, d, 1, BOS_UNKNOWN, BOS_UNKNOWN); else _strcpy_s_chk(NULL, 1, d, BOS_UNKNOWN);
    return NULL; }
static void *p4_b(void *arg) { p4_t *c = arg; char d[4] = "abc"; t_blocking_role = 2;
    if (c->kind) thrd_set_mem_constraint_handler_s(PROBE[1][3]); else thrd_set_str_constraint_handler_s(PROBE[0][3]);
    for (long spin = 0; !g_a_inside && spin < 2000; spin++) { struct timespec ts = {0, 1000 * 1000}; nanosleep(&ts, NULL); }
    t_count = 0; t_last_id = -9;
    if (c->kind) _memcpy_s_chk(NULL, 1, d, 1, BOS_UNKNOWN, BOS_UNKNOWN); else _strcpy_s_chk(NULL, 1, d, BOS_UNKNOWN);
    c->b_count = t_count; c->b_id = t_last_id; g_b_done = 1;
    return NULL; }
static unsigned long long n_p4;
static void phase4(void) {
    for (int rep = 0; rep < (g_tier ? 50 : 10); rep++) for (int kind = 0; kind < 2; kind++) {
        p4_t c = {kind, -1, -1}; pthread_t a, b; g_a_inside = 0; g_b_done = 0;
        pthread_create(&a, NULL, p4_a, &c); pthread_create(&b, NULL, p4_b, &c); pthread_join(b, NULL); pthread_join(a, NULL);
        n_p4++;
        if (!g_a_inside) continue;      /* A's handler never ran: inconclusive repetition (counted below) */
        if (c.b_count != 1 || c.b_id != 3) { op_t o = {OP_VIOL, kind, 0, 0, 0}; char obs[200];
            snprintf(g_hist, sizeof g_hist, "(thread A inside its %s handler; thread B, with its own thread-local handler 3, violates)", kind ? "memory" : "string");
            snprintf(obs, sizeof obs, "thread B's violation ran %d handlers (last id %d) while another thread was inside its handler; expected exactly its own handler 3", c.b_count, c.b_id);
            vio("handler-not-invoked-while-another-thread-is-in-its-handler", &o, obs); return; }
        {   char bb[64]; snprintf(bb, sizeof bb, "p4;%d;%d", kind, c.b_count); distinct_add(hash_str(bb)); }
    }
}

static void gen_random_history(rng_t *g, int len) {
    int nthreads = 1; g_hist[0] = 0; n_hist++;
    for (int i = 0; i < len; i++) {
        op_t o; memset(&o, 0, sizeof o); int r = (int)rnd_n(g, 100);
        o.thread = (int)rnd_n(g, (uint64_t)nthreads); o.kind = (int)rnd_n(g, 2); o.h = (int)rnd_n(g, NPROBE + 2) - 1; if (o.h >= NPROBE) o.h = -1;
        if (r < 8 && nthreads < MAXT - 1) { o.op = OP_CREATE; o.newthread = nthreads++; }
        else if (r < 30) o.op = OP_SETG; else if (r < 55) o.op = OP_SETL; else o.op = OP_VIOL;
        step(&o);
    }
    join_workers();
}

int main(int argc, char **argv) {
    g_out = stdout;
    for (int i = 1; i < argc; i++) {
        if (!strcmp(argv[i], "--prop")) g_prop = argv[++i];
        else if (!strcmp(argv[i], "--tier")) g_tier = !strcmp(argv[++i], "thorough");
        else if (!strcmp(argv[i], "--seed")) g_seed = strtoull(argv[++i], NULL, 10);
        else if (!strcmp(argv[i], "--worker")) ++i;
        else if (!strcmp(argv[i], "--cfg")) g_cfg = argv[++i];
        else if (!strcmp(argv[i], "--verbose")) g_verbose = 1;
        else { fprintf(stderr, "unknown arg %s\n", argv[i]); return 2; }
    }
    for (int t = 0; t < MAXT; t++) for (int k = 0; k < 2; k++) { m_local[t][k] = NEVER; m_inherit_candidate[t][k] = NEVER; }
    t_index = 0; m_alive[0] = 1;
    /* ---- phase 1: complete sweep of short histories over 2 threads, handlers {h0,h1,NULL}, both kinds, both scopes */
    {   op_t alpha[64]; int na = 0;
        for (int th = 0; th < 2; th++) for (int k = 0; k < 2; k++) { for (int h = -1; h < 2; h++) { alpha[na++] = (op_t){OP_SETG, k, h, th, 0}; alpha[na++] = (op_t){OP_SETL, k, h, th, 0}; } alpha[na++] = (op_t){OP_VIOL, k, 0, th, 0}; }
        int L = g_tier ? 4 : 3; long total = 1; for (int i = 0; i < L; i++) total *= na;
        for (long code = 0; code < total; code++) {
            /* one fresh second thread per history (its thread-local state must start unset) */
            g_hist[0] = 0; n_hist++;
            op_t c = {OP_CREATE, 0, 0, 0, 1}; step(&c);
            long cc = code; for (int i = 0; i < L; i++) { op_t o = alpha[cc % na]; cc /= na; step(&o); }
            /* closing probes: every thread violates both kinds once more */
            for (int th = 0; th < 2; th++) for (int k = 0; k < 2; k++) { op_t o = {OP_VIOL, k, 0, th, 0}; step(&o); }
            join_workers();
            /* main thread's thread-local state persists: that is part of the history the model carries */
        }
    }
    emit_counter("phase1_histories", n_hist);
    /* ---- phase 2: random histories with thread creation */
    {   rng_t g = rng_from(g_seed, 13, 2); int nh = g_tier ? 20000 : 1500;
        for (int i = 0; i < nh; i++) gen_random_history(&g, 5 + (int)rnd_n(&g, 56));
    }
    /* ---- phase 3 */
    {   int nt = 8; pthread_t th[16]; pthread_barrier_init(&g_bar, NULL, (unsigned)nt);
        for (int r = 0; r < (g_tier ? 5 : 2); r++) { for (int i = 0; i < nt; i++) pthread_create(&th[i], NULL, conc_main, (void *)(intptr_t)(i + 1)); for (int i = 0; i < nt; i++) pthread_join(th[i], NULL); }
        if (g_conc_fail) { op_t o = {g_conc_fail == 1 ? OP_SETL : OP_VIOL, 0, 0, 0, 0}; snprintf(g_hist, sizeof g_hist, "(concurrent phase, 8 threads)"); vio(g_conc_fail == 1 ? "registration-return-wrong-under-concurrency" : "thread-local-handler-leaks-between-threads", &o, g_conc_obs); }
    }
    phase4(); emit_counter("handler_in_progress_probes", n_p4);
    emit_counter("histories", n_hist); emit_counter("operations", n_ops); emit_counter("violating_calls_checked", n_viol); emit_counter("registrations_checked", n_reg);
    emit_counter("threads_created", n_create); emit_counter("inheritance_observed", n_inherited); emit_counter("no_inheritance_observed", n_not_inherited); emit_counter("concurrent_ops", n_conc_ops);
    {   char s[400]; snprintf(s, sizeof s, "{\"last_history\":\"%.300s\"}", g_hist); emit_sample(s); }
    distinct_emit();
    fprintf(g_out, "{\"t\":\"end\"}\n"); fflush(g_out);
    return 0;
}
