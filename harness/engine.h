/* Table-driven call engine for the two-operand producer families and the fill / in-place
 * families: scenario -> arena set-up -> snapshot -> fenced call -> monitors C01..C08. */
#ifndef ENGINE_H
#define ENGINE_H
#include "common.h"

enum { FAM_CPY, FAM_NCPY, FAM_CAT, FAM_NCAT, FAM_MEMCPY, FAM_MEMMOVE, FAM_MEMCCPY,
       FAM_FLD, FAM_FLDIN, FAM_FLDOUT, FAM_SETN, FAM_SET, FAM_ZERO, FAM_INPLACE, FAM_NUM };

/* descriptor flags */
#define F_STR     0x0001   /* dest result is a string: C03 scope */
#define F_SLACK   0x0002   /* documented to null the slack after success: C08 scope */
#define F_ERRCLR  0x0004   /* documented to clear dest on violation: C04 scope */
#define F_MEMK    0x0008   /* reports through the memory handler */
#define F_SRCBOS  0x0010   /* takes srcbos */
#define F_SAMEOK  0x0020   /* identical pointers are documented as accepted */
#define F_ERRP    0x0040   /* reports through *errp, returns pointer */
#define F_WIDE    0x0080   /* wchar_t elements (limit RSIZE_MAX_WSTR) */
#define F_C04     0x0100   /* in C04 scope (string / wide / memory-copy) */
#define F_STRSRC  0x0200   /* source is a string (terminator ends it) */
#define F_ZLENOK  0x0400   /* slen == 0 is a documented no-op success before any other check */
#define F_DESTSTR 0x0800   /* dest must hold a terminated string on entry */

/* violated-constraint bits (classifier) */
#define V_DNULL  0x001
#define V_DZERO  0x002
#define V_DMAX   0x004
#define V_DBOS   0x008
#define V_SNULL  0x010
#define V_SMAX   0x020
#define V_SBOS   0x040
#define V_OVL    0x080
#define V_NOSPC  0x100
#define V_DUNT   0x200
#define V_SUNT   0x400
#define V_VAL    0x800
#define V_UNSURE 0x8000  /* the documentation leaves the case open: only self-consistency rules apply */

typedef struct ctx {
    void *dest; size_t dmax; size_t destbos;
    const void *src; size_t slen; size_t srcbos;
    long val; size_t n;
    void *out;           /* exact-fit out-parameter object (errno_t etc.) */
    long ret; void *retp;
} ctx_t;

typedef struct desc {
    const char *name;
    int fam;
    int ew;        /* element width */
    int dunit;     /* bytes per unit of the dmax argument */
    int sunit;     /* bytes per unit of the slen / n argument */
    unsigned fl;
    size_t dlimit; /* RSIZE limit in dmax units */
    size_t slimit; /* limit in slen units */
    void (*call)(ctx_t *);
} desc_t;

typedef struct scn {
    int fi; long idx;
    /* dest */
    size_t dmax;      /* declared, dmax units */
    size_t dobj;      /* object size in bytes */
    int dnull;
    int dkind;        /* 0 garbage, no zero element; 1 string of dlen + garbage; 2 string of dlen + zeros */
    size_t dlen;      /* elements */
    int dplace;       /* 0 end-flush 1 begin-flush */
    /* src */
    int snull;
    size_t slen;      /* declared, slen units */
    size_t sstr;      /* elements before the terminator */
    int sterm;        /* terminator present */
    size_t sobj;      /* object bytes */
    int splace;
    int order;        /* 0 dest in the lower slot, 1 dest in the higher slot */
    int ovl; long delta; /* src = dest + delta elements inside one slot */
    int bos;          /* 0 unknown 1 exact 2 dest object larger than dmax, known */
    int untruth;      /* 1: dmax above limit with dest in unmapped memory; 2: slen above limit, src unmapped */
    int rog;          /* 2: the same for the source (an unterminated source of known size is followed by a readable NUL); 1: the page behind the end-flush dest is readable (zeros) but not writable: a store to dest[dmax] faults even where the
                         over-read of an unterminated dest is tolerated */
    long val; size_t n;
    int alpha;
    uint64_t cseed;
    char cls[160];    /* class signature */
} scn_t;

#endif
