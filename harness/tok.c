/* C14: strtok_s / wcstok_s call sequences against a reference tokenizer.
 * Buffer is exact-fit (dmax elements) between PROT_NONE pages; the continuation pointer starts out
 * pointing into a guard page, so a call that uses it without having stored it faults. */
#include "common.h"

static const char *g_cfg = "plain";
static int g_tier, g_wid, g_nw = 1; static long g_only_idx = -1, g_skip_below;
static int want(const char *p) { return !strcmp(g_prop, "ALL") || !strcmp(g_prop, p); }

enum { K_SEQ, K_CALLS, K_TOKENS, K_FAULTS, K_ERRSEQ, K_DEATH, K_NUM };
static const char *KN[] = {"sequences", "calls", "tokens_checked", "faults", "unterminated_sequences", "worker_deaths"};
static unsigned long long K[K_NUM];

typedef struct { int wide; size_t len; unsigned long code; int dv; int delimv; int bos; int place; int rog; } tscn;   /* rog: the page behind the unterminated buffer is readable, not writable: 1 filled with the first delimiter, 2 with a non-delimiter, 3 with zeros */
static const uint32_t AL[4] = {',', ';', 'a', 'b'};
static char g_wit[900]; static int g_samples;

static const char *dname(int v) { static const char *n[] = {"delim=','", "delim=',;'", "delim=empty", "delim=len16", "delim=len17", "delim=alternating", "delim=none-present", "delim=high-bit"}; return n[v]; }
static void wit(const tscn *s, long idx, const char *obs) {
    char str[64] = ""; unsigned long c = s->code; for (size_t i = 0; i < s->len; i++) { sb_add(str, sizeof str, "%c", (char)AL[c % 4]); c /= 4; }
    snprintf(g_wit, sizeof g_wit, "{\"harness\":\"tok\",\"cfg\":\"%s\",\"fn\":\"%s\",\"idx\":%ld,\"seed\":%llu,\"string\":\"%s\",\"len\":%zu,\"dmaxvariant\":%d,\"%s\":1,\"bos\":%d,\"place\":%d,\"obs\":\"%s\",\"replay\":\"tok --cfg %s --idx %ld --seed %llu --tier %s\"}",
             g_cfg, s->wide ? "wcstok_s" : "strtok_s", idx, (unsigned long long)g_seed, str, s->len, s->dv, dname(s->delimv), s->bos, s->place, obs, g_cfg, idx, (unsigned long long)g_seed, g_tier ? "thorough" : "quick");
}
static void viol(const tscn *s, long idx, const char *rule, int callno, const char *obs) {
    char key[240], what[420];
    if (!want("C14")) return;
    static const char *dvn[] = {"dmax=len+1", "dmax=len+2", "dmax=len+5", "dmax=len(unterminated)", "dmax=len-1(unterminated)"};
    snprintf(key, sizeof key, "%s|%s|%s|%s|%s|%s", s->wide ? "wcstok_s" : "strtok_s", rule, callno == 0 ? "first-call" : "continuation", dvn[s->dv], dname(s->delimv), s->bos ? "bos=exact" : "bos=unknown");
    snprintf(what, sizeof what, "%s: %s at call %d: %s", s->wide ? "wcstok_s" : "strtok_s", rule, callno + 1, obs);
    wit(s, idx, obs); report("C14", key, what, g_wit);
}

static uint32_t gel(const void *p, size_t i, int w) { return w ? ((const uint32_t *)p)[i] : ((const uint8_t *)p)[i]; }
static void sel(void *p, size_t i, int w, uint32_t v) { if (w) ((uint32_t *)p)[i] = v; else ((uint8_t *)p)[i] = (uint8_t)v; }
static int in(uint32_t c, const uint32_t *d, size_t n) { for (size_t i = 0; i < n; i++) if (d[i] == c) return 1; return 0; }

static void run_seq(const tscn *s, long idx) {
    int w = s->wide, ew = w ? 4 : 1;
    uint32_t str[16]; unsigned long c = s->code; for (size_t i = 0; i < s->len; i++) { str[i] = AL[c % 4]; c /= 4; }
    size_t len = s->len, dmax0 = s->dv == 0 ? len + 1 : s->dv == 1 ? len + 2 : s->dv == 2 ? len + 5 : s->dv == 3 ? len : len - 1;
    int terminated = s->dv <= 2;
    if (!terminated && (len == 0 || dmax0 == 0)) return;
    /* object: exactly dmax0 elements */
    uint8_t *buf = s->place ? place_begin(0) : place_end(0, dmax0 * ew);
    uint32_t ref[24]; /* reference image of the buffer */
    for (size_t i = 0; i < dmax0; i++) { uint32_t v = i < len ? str[i] : i == len ? 0 : 'z'; ref[i] = v; sel(buf, i, w, v); }
    if (s->place) memset(buf + dmax0 * ew, CANARY, 16); else memset(buf - 16, CANARY, 16);
    /* delimiter sets */
    uint32_t d1[20], d2[20]; size_t n1 = 0, n2 = 0;
    switch (s->delimv) {
    case 0: d1[n1++] = ','; break;
    case 1: d1[n1++] = ','; d1[n1++] = ';'; break;
    case 2: break;
    case 3: for (int i = 0; i < 15; i++) d1[n1++] = 'K' + i; d1[n1++] = ','; break;          /* 16 characters, the last one matters */
    case 4: for (int i = 0; i < 16; i++) d1[n1++] = 'K' + i; d1[n1++] = ','; break;          /* 17: longer than STRTOK_DELIM_MAX_LEN */
    case 5: d1[n1++] = ','; d2[n2++] = ';'; break;
    case 6: d1[n1++] = 'x'; d1[n1++] = 'y'; break;
    case 7: d1[n1++] = w ? 0x20AC : 0xE9; d1[n1++] = ','; break;                             /* a delimiter above 0x7F (signed char / wide) */
    }
    if (s->delimv == 7) for (size_t i = 0; i < dmax0; i++) if (i < len && str[i] == ';') { str[i] = w ? 0x20AC : 0xE9; ref[i] = str[i]; sel(buf, i, w, str[i]); }
    if (s->delimv != 5) { memcpy(d2, d1, sizeof d1); n2 = n1; }
    uint8_t *dl1 = place_end(1, (n1 + 1) * ew), *dl2 = place_end(3, (n2 + 1) * ew);
    for (size_t i = 0; i < n1; i++) sel(dl1, i, w, d1[i]); sel(dl1, n1, w, 0);
    for (size_t i = 0; i < n2; i++) sel(dl2, i, w, d2[i]); sel(dl2, n2, w, 0);
    /* out-parameters: exact-fit */
    rsize_t *dmaxp = place_end(2, sizeof(rsize_t)); *dmaxp = dmax0;
    void **ptr = place_end(4, sizeof(void *)); void *poison = slot_end(0) + 512 + 8 * ew; *ptr = poison;
    size_t bos = s->bos ? dmax0 * ew : BOS_UNKNOWN;
    /* reference state */
    size_t pos = 0; int ref_done = 0; int nulls = 0; int lib_null_seen = 0;
    K[K_SEQ]++;
    char obs[260];
    size_t prev_dmax = dmax0;
    int delim_too_long = s->delimv == 4;
    if (s->rog) guard_fill(0, s->rog == 1 ? (n1 ? d1[0] : ',') : s->rog == 2 ? 'q' : 0, ew);
    for (int call = 0; call < 32; call++) {
        const uint32_t *dd = (call & 1) ? d2 : d1; size_t dn = (call & 1) ? n2 : n1; void *dl = (call & 1) ? dl2 : dl1;
        void *tok = (void *)-1; int e;
        probes_reset(); errno = 0;
        g_shm->in_call = 1; g_cur_fn = w ? "wcstok_s" : "strtok_s";
        if (w) FENCED(tok = _wcstok_s_chk(call == 0 ? (wchar_t *)buf : NULL, dmaxp, dl, (wchar_t **)ptr, call == 0 ? bos : 0));
        else   FENCED(tok = _strtok_s_chk(call == 0 ? (char *)buf : NULL, dmaxp, dl, (char **)ptr, call == 0 ? bos : 0));
        g_shm->in_call = 0; e = errno;
        K[K_CALLS]++;
        if (s->rog) {   /* only one question here: is anything stored behind dest+dmax (what is read there is the pinned over-read) */
            if (g_fence.faulted && g_fence.is_write) {
                K[K_FAULTS]++;
                snprintf(obs, sizeof obs, "WRITE fault at offset %ld from dest (dmax %zu); the unterminated buffer is followed by readable %s", (long)(g_fence.addr - (uintptr_t)buf), dmax0, s->rog == 1 ? "delimiter characters" : s->rog == 2 ? "non-delimiter characters" : "zeros");
                viol(s, idx, "W-fault-past-dest+dmax(readable-neighbourhood)", call, obs);
                if (want("C01")) { char key[200], what[400]; snprintf(key, sizeof key, "%s|tok-W-fault|past-dest+dmax|readable-%s", w ? "wcstok_s" : "strtok_s", s->rog == 1 ? "delimiters" : s->rog == 2 ? "non-delimiters" : "zeros"); snprintf(what, sizeof what, "%s writes outside dest[0..dmax): %s", w ? "wcstok_s" : "strtok_s", obs); wit(s, idx, obs); report("C01", key, what, g_wit); }
            }
            if (g_fence.faulted || tok == NULL || call == 31) { guard_readable(0, 0); return; }
            continue;
        }
        if (g_fence.faulted) {
            K[K_FAULTS]++;
            const char *wh = (g_fence.addr >= (uintptr_t)slot_end(0) + 256 && g_fence.addr < (uintptr_t)slot_end(0) + PAGE) ? "continuation-pointer-used-but-never-stored" :
                             (g_fence.addr >= (uintptr_t)buf + dmax0 * ew && g_fence.addr < (uintptr_t)buf + dmax0 * ew + 256) ? "past-dest+dmax" : (g_fence.addr < (uintptr_t)buf && g_fence.addr + 256 > (uintptr_t)buf) ? "before-dest" : "elsewhere";
            snprintf(obs, sizeof obs, "%s fault %s (offset %ld from dest, dmax %zu)", g_fence.is_write ? "WRITE" : "READ", wh, (long)(g_fence.addr - (uintptr_t)buf), dmax0);
            char r[96]; snprintf(r, sizeof r, "%s-fault-%s", g_fence.is_write ? "W" : "R", wh);
            viol(s, idx, r, call, obs);
            if (want("C02") && !g_fence.is_write && strcmp(wh, "continuation-pointer-used-but-never-stored")) { char key[200], what[300]; snprintf(key, sizeof key, "%s|tok-R-fault|%s|%s", w ? "wcstok_s" : "strtok_s", wh, terminated ? "terminated" : "unterminated"); snprintf(what, sizeof what, "%s reads outside dest[0..dmax): %s", w ? "wcstok_s" : "strtok_s", obs); wit(s, idx, obs); report("C02", key, what, g_wit); }
            if (want("C01") && g_fence.is_write) { char key[200], what[300]; snprintf(key, sizeof key, "%s|tok-W-fault|%s", w ? "wcstok_s" : "strtok_s", wh); snprintf(what, sizeof what, "%s writes outside dest[0..dmax): %s", w ? "wcstok_s" : "strtok_s", obs); wit(s, idx, obs); report("C01", key, what, g_wit); }
            return;
        }
        /* canaries */
        { const uint8_t *cn = s->place ? buf + dmax0 * ew : buf - 16; for (int i = 0; i < 16; i++) if (cn[i] != CANARY) { viol(s, idx, "write-outside-buffer", call, "canary next to the buffer changed");
            if (want("C01")) { char key[200], what[300]; snprintf(key, sizeof key, "%s|tok-write-past-dmax|%s", w ? "wcstok_s" : "strtok_s", terminated ? "terminated" : "unterminated"); snprintf(what, sizeof what, "%s stores outside dest[0..dmax) (canary next to the buffer changed, call %d)", w ? "wcstok_s" : "strtok_s", call + 1); wit(s, idx, "canary changed"); report("C01", key, what, g_wit); }
            return; } }
        if (delim_too_long || !terminated) {
            /* error sequences: must end with NULL + error, nothing outside dmax touched (fence).  A token may be
               delivered before the unterminated tail is met. */
            if (!tok) { nulls++; if (nulls == 1 && !(e || g_h.count) && !terminated && 0) {} if (nulls >= 2) { K[K_ERRSEQ]++; break; } }
            else { const uint8_t *t = tok; if (t < buf || t >= buf + dmax0 * ew) { snprintf(obs, sizeof obs, "token pointer at offset %ld outside the buffer", (long)(t - buf)); viol(s, idx, "token-outside-buffer", call, obs); return; } nulls = 0; }
            if (*dmaxp > prev_dmax) { snprintf(obs, sizeof obs, "*dmaxp grew from %zu to %zu", prev_dmax, (size_t)*dmaxp); viol(s, idx, "remaining-length-grew", call, obs); return; }
            prev_dmax = *dmaxp;
            if (call == 31) viol(s, idx, "sequence-does-not-end", call, "32 calls without two consecutive NULLs");
            continue;
        }
        /* ---- reference step */
        long etok = -1; size_t elen = 0;
        if (!ref_done) {
            while (pos < len && in(ref[pos], dd, dn)) pos++;
            if (pos >= len) { ref_done = 1; }
            else { etok = (long)pos; while (pos < len && !in(ref[pos], dd, dn)) pos++; elen = pos - (size_t)etok; if (pos < len) { ref[pos] = 0; pos++; } else ref_done = (pos >= len) ? 0 : 0; }
        }
        if (etok < 0) {
            if (tok) { snprintf(obs, sizeof obs, "returned a token at offset %ld although no token is left%s", (long)(((uint8_t *)tok - buf) / ew), lib_null_seen ? " (after a NULL had been returned)" : ""); viol(s, idx, lib_null_seen ? "token-after-null" : "extra-token", call, obs); return; }
            lib_null_seen = 1; nulls++;
            if (nulls >= 4) break;       /* first NULL + 3 further calls */
        } else {
            K[K_TOKENS]++;
            if (!tok) { snprintf(obs, sizeof obs, "returned NULL (errno %s, handler %d) but token at offset %ld (length %zu) exists", errname(e), g_h.count, etok, elen); viol(s, idx, "token-missed", call, obs); return; }
            long got = (long)(((uint8_t *)tok - buf) / ew);
            if ((uint8_t *)tok < buf || (uint8_t *)tok >= buf + dmax0 * ew) { snprintf(obs, sizeof obs, "token pointer outside the buffer"); viol(s, idx, "token-outside-buffer", call, obs); return; }
            if (got != etok) { snprintf(obs, sizeof obs, "token starts at offset %ld, reference says %ld", got, etok); viol(s, idx, "wrong-token", call, obs); return; }
            size_t tl = 0; while ((size_t)got + tl < dmax0 && gel(buf, (size_t)got + tl, w)) tl++;
            if ((size_t)got + tl >= dmax0) { viol(s, idx, "token-not-terminated-inside-buffer", call, "no NUL behind the token inside dmax"); return; }
            if (tl != elen) { snprintf(obs, sizeof obs, "token at offset %ld has length %zu, reference %zu", got, tl, elen); viol(s, idx, "wrong-token-length", call, obs); return; }
        }
        /* buffer image: only the reference's delimiter positions may have changed */
        for (size_t i = 0; i < dmax0; i++) if (gel(buf, i, w) != ref[i]) { snprintf(obs, sizeof obs, "buffer[%zu] is %#x, expected %#x (only delimiters that end a token may be overwritten)", i, gel(buf, i, w), ref[i]); viol(s, idx, "buffer-modified-at-non-delimiter", call, obs); return; }
        /* remaining-length bookkeeping */
        if (*dmaxp > prev_dmax) { snprintf(obs, sizeof obs, "*dmaxp grew from %zu to %zu", prev_dmax, (size_t)*dmaxp); viol(s, idx, "remaining-length-grew", call, obs); return; }
        prev_dmax = *dmaxp;
        if (*ptr != poison && *ptr != NULL) {
            const uint8_t *p = *ptr;
            if (p < buf || p > buf + dmax0 * ew) { snprintf(obs, sizeof obs, "*ptr at offset %ld outside the buffer", (long)(p - buf)); viol(s, idx, "continuation-pointer-outside-buffer", call, obs); return; }
            if (p + (size_t)*dmaxp * ew > buf + dmax0 * ew) { snprintf(obs, sizeof obs, "*ptr+*dmaxp = offset %ld exceeds dmax %zu", (long)((p - buf) / ew + (long)*dmaxp), dmax0); viol(s, idx, "remaining-length-permits-access-past-dmax", call, obs); return; }
        }
    }
    {   char b[160]; snprintf(b, sizeof b, "t;%d;%zu;%lu;%d;%d;%d", w, s->len, s->code, s->dv, s->delimv, s->bos); distinct_add(hash_str(b)); }
    if (g_verbose) { wit(s, idx, "verbose"); printf("%s\n", g_wit); }
    if (g_samples < 5 && idx % 509 == (long)(g_seed % 509)) { wit(s, idx, "sample"); emit_sample(g_wit); g_samples++; }
}

static void gen(void) {
    long idx = 0; tscn s; size_t maxlen = g_tier ? 7 : 5;
    for (int w = 0; w < 2; w++) for (size_t len = 0; len <= maxlen; len++) { unsigned long tot = 1; for (size_t i = 0; i < len; i++) tot *= 4;
        for (unsigned long code = 0; code < tot; code++) for (int dv = 0; dv < 5; dv++) for (int delimv = 0; delimv < 8; delimv++) {
            if (len >= 6 && delimv >= 2 && delimv != 5 && (code % 7)) continue;
            long my = idx++; if (g_only_idx >= 0 ? my != g_only_idx : (my % g_nw != g_wid || my < g_skip_below)) continue;
            memset(&s, 0, sizeof s); s.wide = w; s.len = len; s.code = code; s.dv = dv; s.delimv = delimv; s.bos = (int)((code + dv) & 1); s.place = (int)((code >> 1) & 1);
            g_shm->cur = my; run_seq(&s, my);
            if (dv >= 3 && !s.place && len) for (int r = 1; r <= 3; r++) { s.rog = r; run_seq(&s, my); } s.rog = 0;
        } }
}
static void body(void *a, long lo, long hi) { (void)a; (void)hi; g_skip_below = lo; gen(); for (int i = 0; i < K_NUM; i++) __sync_fetch_and_add(&CTR(i), K[i]); __sync_fetch_and_add(&CTR(60), g_fp_checks); distinct_emit(); }
static void on_death(void *a, long idx, int status, int hung) {
    (void)a; char key[200], what[300], w[300]; CTR(K_DEATH)++;
    if (!g_shm->in_call) { fprintf(g_out, "{\"t\":\"harness_error\",\"idx\":%ld,\"status\":%d}\n", idx, status); fflush(g_out); return; }
    snprintf(key, sizeof key, "strtok|worker-%s|%s", hung ? "hang" : "death", hung ? "watchdog" : WIFSIGNALED(status) ? strsignal(WTERMSIG(status)) : "exit");
    snprintf(what, sizeof what, "process %s in sequence %ld (status %#x)", hung ? "hung" : "died", idx, status);
    snprintf(w, sizeof w, "{\"harness\":\"tok\",\"cfg\":\"%s\",\"idx\":%ld,\"replay\":\"tok --cfg %s --idx %ld --seed %llu --tier %s\"}", g_cfg, idx, g_cfg, idx, (unsigned long long)g_seed, g_tier ? "thorough" : "quick");
    report("C14", key, what, w);
}
int main(int argc, char **argv) {
    g_out = stdout;
    for (int i = 1; i < argc; i++) {
        if (!strcmp(argv[i], "--prop")) g_prop = argv[++i];
        else if (!strcmp(argv[i], "--tier")) g_tier = !strcmp(argv[++i], "thorough");
        else if (!strcmp(argv[i], "--seed")) g_seed = strtoull(argv[++i], NULL, 10);
        else if (!strcmp(argv[i], "--worker")) sscanf(argv[++i], "%d/%d", &g_wid, &g_nw);
        else if (!strcmp(argv[i], "--cfg")) g_cfg = argv[++i];
        else if (!strcmp(argv[i], "--idx")) g_only_idx = atol(argv[++i]);
        else if (!strcmp(argv[i], "--verbose")) g_verbose = 1;
        else { fprintf(stderr, "unknown arg %s\n", argv[i]); return 2; }
    }
    arena_init(); fence_init(); shm_init(); probes_install(); fp_init();
    int dummy = 0; run_supervised(body, on_death, &dummy, 0, 1L << 40, 30);
    for (int i = 0; i < K_NUM; i++) emit_counter(KN[i], CTR(i));
    emit_counter("footprint_checks", CTR(60));
    fprintf(g_out, "{\"t\":\"end\"}\n"); fflush(g_out);
    return 0;
}
