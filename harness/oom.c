/* C20: out-of-memory inside the library.  Linked with --wrap=malloc,calloc,realloc,free: while a library call is in
 * flight the wrappers count the allocations it makes, fail the k-th one on request and track live blocks.
 * For each scenario: a learning run (k = infinity) gives the number of allocations A and checks for leaks; then
 * k = 1..A are enumerated (complete per scenario).  Events: death of the process (dereference of the failed
 * allocation), success reported although an allocation failed, dest not cleared, live blocks at return. */
#include "common.h"
#include <wchar.h>

static const char *g_cfg = "plain"; static int g_tier;
static int want(const char *p) { return !strcmp(g_prop, "ALL") || !strcmp(g_prop, p); }

extern void *__real_malloc(size_t); extern void *__real_calloc(size_t, size_t); extern void *__real_realloc(void *, size_t); extern void __real_free(void *);
static volatile int w_inlib; static int w_count, w_failat, w_failed; static void *w_live[64]; static int w_nlive; static void *w_sites[16]; static int w_nsites;
static void live_add(void *p) { if (p && w_nlive < 64) w_live[w_nlive++] = p; }
static void live_del(void *p) { for (int i = 0; i < w_nlive; i++) if (w_live[i] == p) { w_live[i] = w_live[--w_nlive]; return; } }
static int gate(void *site) { if (!w_inlib) return 0; w_count++; int known = 0; for (int i = 0; i < w_nsites; i++) if (w_sites[i] == site) known = 1; if (!known && w_nsites < 16) w_sites[w_nsites++] = site; if (w_count == w_failat) { w_failed = 1; return 1; } return 0; }
void *__wrap_malloc(size_t n) { if (gate(__builtin_return_address(0))) { errno = ENOMEM; return NULL; } void *p = __real_malloc(n); if (w_inlib) live_add(p); return p; }
void *__wrap_calloc(size_t a, size_t b) { if (gate(__builtin_return_address(0))) { errno = ENOMEM; return NULL; } void *p = __real_calloc(a, b); if (w_inlib) live_add(p); return p; }
void *__wrap_realloc(void *q, size_t n) { if (gate(__builtin_return_address(0))) { errno = ENOMEM; return NULL; } void *p = __real_realloc(q, n); if (w_inlib) { if (p) { live_del(q); live_add(p); } } return p; }
void __wrap_free(void *p) { if (w_inlib) live_del(p); __real_free(p); }

/* ---- scenarios: each makes exactly one library call; returns 1 if the call reported failure */
typedef struct { const char *name; const char *site; int (*run)(void); } oscn;
static uint8_t *D; static size_t DMAXB; static int DW;      /* dest, its size in bytes, element width (for the cleared check) */
static uint8_t *mk(size_t nb) { D = place_end(0, nb); DMAXB = nb; for (size_t i = 0; i < nb; i++) D[i] = (uint8_t)(0x61 + i % 26); return D; }
#define LIBCALL(stmt) do { w_inlib = 1; stmt; w_inlib = 0; } while (0)
static int s_ls_ascii(void)   { mk(64); DW = 1; int r; LIBCALL(r = _sprintf_s_chk((char *)D, 64, 64, "<%ls>", L"wide text")); return r < 0; }
static int s_ls_mb(void)      { mk(64); DW = 1; int r; LIBCALL(r = _sprintf_s_chk((char *)D, 64, 64, "<%ls>", L"grüß €")); return r < 0; }
static int s_ls_invalid(void) { mk(64); DW = 1; static const wchar_t bad[] = {L'a', 0xD800, L'b', 0}; int r; LIBCALL(r = _sprintf_s_chk((char *)D, 64, 64, "<%ls>", bad)); return r < 0; }
static int s_ls_empty(void)   { mk(64); DW = 1; int r; LIBCALL(r = _snprintf_s_chk((char *)D, 64, 64, "a%lsb", L"")); return r < 0; }            /* converted length 0: the allocation is still made and may fail */
static int s_ls_prec0(void)   { mk(64); DW = 1; int r; LIBCALL(r = _snprintf_s_chk((char *)D, 64, 64, "a%.0lsb", L"xyz")); return r < 0; }
static int s_ls_prec(void)    { mk(64); DW = 1; int r; LIBCALL(r = _snprintf_s_chk((char *)D, 64, 64, "%.3ls|", L"abcdef")); return r < 0; }
static int s_Lf_big(void) { mk(200); DW = 1; int r; LIBCALL(r = _sprintf_s_chk((char *)D, 200, 200, "%Lf tail", 1e90L)); return r < 0; }   /* 90 digits: the heap copy of the libc rendering */
static int s_Lf_big_end(void) { mk(200); DW = 1; int r; LIBCALL(r = _sprintf_s_chk((char *)D, 200, 200, "x%.3Lf", 1e90L)); return r < 0; }
static int s_f_huge(void) { mk(400); DW = 1; int r; LIBCALL(r = _sprintf_s_chk((char *)D, 400, 400, "%f", 1e300)); return r < 0; }           /* %f above 1e9 is rendered by libc: 300 digits through the heap copy */
static int s_Lf(void)  { mk(64); DW = 1; int r; LIBCALL(r = _sprintf_s_chk((char *)D, 64, 64, "%Lf tail", 3.25L)); return r < 0; }
static int s_Le(void)  { mk(64); DW = 1; int r; LIBCALL(r = _sprintf_s_chk((char *)D, 64, 64, "%Le tail", 3.25L)); return r < 0; }
static int s_Lg(void)  { mk(64); DW = 1; int r; LIBCALL(r = _sprintf_s_chk((char *)D, 64, 64, "%Lg tail", 3.25L)); return r < 0; }
static int s_La(void)  { mk(64); DW = 1; int r; LIBCALL(r = _sprintf_s_chk((char *)D, 64, 64, "%La tail", 3.25L)); return r < 0; }
static int s_a(void)   { mk(64); DW = 1; int r; LIBCALL(r = _sprintf_s_chk((char *)D, 64, 64, "%a tail", 3.25)); return r < 0; }
static int s_fL2(void) { mk(96); DW = 1; int r; LIBCALL(r = _sprintf_s_chk((char *)D, 96, 96, "%Lf %ls %Le.", 1.5L, L"mid", 2.5L)); return r < 0; }
static wchar_t LONGW[700];
static int s_swprintf_nospc(void)  { mk(600 * 4); DW = 4; int r; LIBCALL(r = _swprintf_s_chk((wchar_t *)D, 600, 2400, L"%ls", LONGW)); return r < 0; }
static int s_snwprintf_nospc(void) { mk(600 * 4); DW = 4; int r; LIBCALL(r = _snwprintf_s_chk((wchar_t *)D, 600, 2400, L"%ls", LONGW)); return r < 0 || 1; }
static int tr1(wchar_t *d, size_t n, size_t b, const wchar_t *f, ...) { va_list ap; va_start(ap, f); int r = _vswprintf_s_chk(d, n, b, f, ap); va_end(ap); return r; }
static int tr2(wchar_t *d, size_t n, size_t b, const wchar_t *f, ...) { va_list ap; va_start(ap, f); int r = _vsnwprintf_s_chk(d, n, b, f, ap); va_end(ap); return r; }
static int s_vswprintf_nospc(void)  { mk(600 * 4); DW = 4; int r; LIBCALL(r = tr1((wchar_t *)D, 600, 2400, L"%ls", LONGW)); return r < 0; }
static int s_vsnwprintf_nospc(void) { mk(600 * 4); DW = 4; int r; LIBCALL(r = tr2((wchar_t *)D, 600, 2400, L"%ls", LONGW)); return r < 0 || 1; }
static wchar_t NSRC[400];
static void norm_src(int kind) {   /* 0: 130 plain letters (scratch >= 128); 1: base + 20 combining marks of mixed classes; 2: composable sequence with many marks */
    size_t n = 0; if (kind == 0) { for (; n < 130; n++) NSRC[n] = L'a' + (wchar_t)(n % 26); }
    else { NSRC[n++] = L'a'; static const wchar_t marks[] = {0x0301, 0x0323, 0x0308, 0x0327, 0x0300, 0x031B, 0x0302, 0x0328}; for (int i = 0; i < (kind == 1 ? 20 : 28); i++) NSRC[n++] = marks[i % 8]; NSRC[n++] = L'z'; }
    NSRC[n] = 0;
}
static int s_norm_big(void)     { norm_src(0); mk(300 * 4); DW = 4; rsize_t l = 0; errno_t r; LIBCALL(r = _wcsnorm_s_chk((wchar_t *)D, 300, NSRC, WCSNORM_NFC, &l, 1200)); return r != EOK; }
static int s_norm_marks_d(void) { norm_src(1); mk(100 * 4); DW = 4; rsize_t l = 0; errno_t r; LIBCALL(r = _wcsnorm_s_chk((wchar_t *)D, 100, NSRC, WCSNORM_NFD, &l, 400)); return r != EOK; }
static int s_norm_marks_c(void) { norm_src(2); mk(100 * 4); DW = 4; rsize_t l = 0; errno_t r; LIBCALL(r = _wcsnorm_s_chk((wchar_t *)D, 100, NSRC, WCSNORM_NFC, &l, 400)); return r != EOK; }
static int s_norm_nospc(void)   { norm_src(1); mk(8 * 4); DW = 4; rsize_t l = 0; errno_t r; LIBCALL(r = _wcsnorm_s_chk((wchar_t *)D, 8, NSRC, WCSNORM_NFC, &l, 32)); return r != EOK; }
static int s_wcsicmp(void)      { D = NULL; DMAXB = 0; int res = 0; errno_t r; wchar_t *a = place_end(0, 8 * 4), *b = place_end(1, 8 * 4); wcscpy(a, L"Straße"); wcscpy(b, L"STRASSE"); LIBCALL(r = _wcsicmp_s_chk(a, 8, b, 8, &res, 32, 32)); return r != EOK; }
static int s_wcsicmp_bad(void)  { D = NULL; DMAXB = 0; int res = 0; errno_t r; wchar_t *a = place_end(0, 4 * 4), *b = place_end(1, 4 * 4); a[0] = L'a'; a[1] = 0x110000 + 5; a[2] = 0; b[0] = L'a'; b[1] = 0; LIBCALL(r = _wcsicmp_s_chk(a, 4, b, 4, &res, 16, 16)); return r != EOK; }
static int s_wcsnatcmp(void)    { D = NULL; DMAXB = 0; int res = 0; errno_t r; wchar_t *a = place_end(0, 8 * 4), *b = place_end(1, 8 * 4); wcscpy(a, L"File12"); wcscpy(b, L"fILE2"); LIBCALL(r = _wcsnatcmp_s_chk(a, 8, b, 8, 1, &res, 32, 32)); return r != EOK; }
static int s_wcsnatcmp_bad2(void) { D = NULL; DMAXB = 0; int res = 0; errno_t r; wchar_t *a = place_end(0, 4 * 4), *b = place_end(1, 4 * 4); a[0] = L'a'; a[1] = 0; b[0] = L'a'; b[1] = 0x110000 + 5; b[2] = 0; LIBCALL(r = _wcsnatcmp_s_chk(a, 4, b, 4, 1, &res, 16, 16)); return r != EOK; }
static int s_wcsicmp_bad2(void) { D = NULL; DMAXB = 0; int res = 0; errno_t r; wchar_t *a = place_end(0, 4 * 4), *b = place_end(1, 4 * 4); a[0] = L'a'; a[1] = 0; b[0] = L'a'; b[1] = 0x110000 + 5; b[2] = 0; LIBCALL(r = _wcsicmp_s_chk(a, 4, b, 4, &res, 16, 16)); return r != EOK; }

static const oscn SC[] = {
    {"sprintf_s(%ls ascii)", "%ls copy", s_ls_ascii}, {"sprintf_s(%ls multibyte)", "%ls copy", s_ls_mb}, {"sprintf_s(%ls invalid)", "%ls copy, conversion error exit", s_ls_invalid},
    {"snprintf_s(%ls of an empty string)", "%ls copy of length 0", s_ls_empty}, {"snprintf_s(%.0ls)", "%ls copy of length 0", s_ls_prec0},
    {"snprintf_s(%.3ls)", "%ls copy", s_ls_prec}, {"sprintf_s(%f of 1e300)", "rendering longer than 64 (double delegated to libc)", s_f_huge}, {"sprintf_s(%Lf+text)", "directive copy", s_Lf}, {"sprintf_s(%Lf of 1e90 +text)", "directive copy + rendering longer than 64", s_Lf_big}, {"sprintf_s(%.3Lf of 1e90)", "rendering longer than 64", s_Lf_big_end}, {"sprintf_s(%Le+text)", "directive copy", s_Le}, {"sprintf_s(%Lg+text)", "directive copy", s_Lg},
    {"sprintf_s(%La+text)", "directive copy", s_La}, {"sprintf_s(%a+text)", "directive copy", s_a}, {"sprintf_s(%Lf %ls %Le)", "three sites in one call", s_fL2},
    {"swprintf_s(no space, dmax>=512)", "no-space probe", s_swprintf_nospc}, {"snwprintf_s(no space, dmax>=512)", "no-space probe", s_snwprintf_nospc},
    {"vswprintf_s(no space, dmax>=512)", "no-space probe", s_vswprintf_nospc}, {"vsnwprintf_s(no space, dmax>=512)", "no-space probe", s_vsnwprintf_nospc},
    {"wcsnorm_s(130 chars)", "scratch len+2>=128", s_norm_big}, {"wcsnorm_s(NFD, 20 marks)", "reorder growth", s_norm_marks_d}, {"wcsnorm_s(NFC, 28 marks)", "reorder+compose growth", s_norm_marks_c},
    {"wcsnorm_s(no space)", "error exit after growth", s_norm_nospc}, {"wcsicmp_s", "two fold buffers", s_wcsicmp}, {"wcsicmp_s(fold error)", "fold buffers, error exit", s_wcsicmp_bad},
    {"wcsicmp_s(fold error in src)", "both fold buffers live at the error exit", s_wcsicmp_bad2},
    {"wcsnatcmp_s(fold_case)", "two fold buffers", s_wcsnatcmp}, {"wcsnatcmp_s(fold error in src)", "both fold buffers live at the error exit", s_wcsnatcmp_bad2},
};
#define NSC ((int)(sizeof SC / sizeof SC[0]))
enum { K_RUNS, K_ALLOCS, K_FAILPOS, K_SITES, K_DEATH, K_NUM };
static const char *KN[] = {"runs", "allocations_observed", "fail_positions_enumerated", "allocation_sites_seen", "worker_deaths"};
static unsigned long long K[K_NUM];

static void vio(int si, int k, const char *rule, const char *obs) {
    char key[200], what[400], w[400];
    if (!want("C20")) return;
    snprintf(key, sizeof key, "%s|%s|%s", SC[si].name, rule, k ? "allocation-failed" : "no-fault");
    snprintf(what, sizeof what, "%s (%s), %s: %s: %s", SC[si].name, SC[si].site, k ? "k-th allocation fails" : "no injected failure", rule, obs);
    snprintf(w, sizeof w, "{\"harness\":\"oom\",\"cfg\":\"%s\",\"scenario\":\"%s\",\"fail_at\":%d,\"obs\":\"%s\",\"replay\":\"oom --cfg %s\"}", g_cfg, SC[si].name, k, obs, g_cfg);
    report("C20", key, what, w);
}
static void run_one(int si, int k) {
    char obs[200];
    w_count = 0; w_failat = k ? k : -1; w_failed = 0; w_nlive = 0; probes_reset();
    int failed = 0; g_shm->in_call = 1; g_cur_fn = SC[si].name;
    FENCED(failed = SC[si].run()); w_inlib = 0; g_shm->in_call = 0;
    K[K_RUNS]++;
    {   char b[120]; snprintf(b, sizeof b, "%s;%d;%d", SC[si].name, k, g_fence.faulted ? -1 : failed); distinct_add(hash_str(b)); }
    if (g_fence.faulted) { snprintf(obs, sizeof obs, "%s fault at %#lx (dereference of the failed allocation)", g_fence.is_write ? "WRITE" : "READ", (unsigned long)g_fence.addr); vio(si, k, "crash", obs); w_nlive = 0; return; }
    if (w_nlive) { snprintf(obs, sizeof obs, "%d block(s) allocated during the call are still live at return", w_nlive); vio(si, k, "leak", obs); for (int i = 0; i < w_nlive; i++) __real_free(w_live[i]); w_nlive = 0; }
    if (k && w_failed) {
        if (!failed) { snprintf(obs, sizeof obs, "allocation %d failed but the call reports success", k); vio(si, k, "success-reported-after-failed-allocation", obs); }
        else if (D) { int z = 1; for (int i = 0; i < DW && (size_t)i < DMAXB; i++) if (D[i]) z = 0; if (!z) { snprintf(obs, sizeof obs, "call failed but dest[0] is not zero"); vio(si, k, "dest-not-cleared", obs); } }
    }
}
static void body(void *a, long lo, long hi) {
    (void)a; (void)hi;
    for (long si = lo / 100; si < NSC; si++) {
        long kstart = (si == lo / 100) ? lo % 100 : 0;
        int A = 8;
        for (long k = kstart; k <= A; k++) {
            g_shm->cur = si * 100 + k;
            run_one((int)si, (int)k);
            if (k == 0) { A = w_count; K[K_ALLOCS] += (unsigned long long)A; if (A > 40) A = 40; }
            else K[K_FAILPOS]++;
            if (k == 0 && A == 0) break;
        }
    }
    K[K_SITES] = (unsigned long long)w_nsites;
    for (int i = 0; i < K_NUM; i++) __sync_fetch_and_add(&CTR(i), K[i]); distinct_emit();
}
static void on_death(void *a, long idx, int status, int hung) {
    (void)a; CTR(K_DEATH)++; int si = (int)(idx / 100), k = (int)(idx % 100); char obs[200];
    if (!g_shm->in_call || si >= NSC) { fprintf(g_out, "{\"t\":\"harness_error\",\"idx\":%ld,\"status\":%d}\n", idx, status); fflush(g_out); return; }
    snprintf(obs, sizeof obs, "process %s (status %#x)", hung ? "hung" : "died", status); vio(si, k, hung ? "hang" : "crash", obs);
}
int main(int argc, char **argv) {
    g_out = stdout;
    for (int i = 1; i < argc; i++) {
        if (!strcmp(argv[i], "--prop")) g_prop = argv[++i];
        else if (!strcmp(argv[i], "--tier")) g_tier = !strcmp(argv[++i], "thorough");
        else if (!strcmp(argv[i], "--seed")) g_seed = strtoull(argv[++i], NULL, 10);
        else if (!strcmp(argv[i], "--worker")) ++i;
        else if (!strcmp(argv[i], "--cfg")) g_cfg = argv[++i];
        else { fprintf(stderr, "unknown arg %s\n", argv[i]); return 2; }
    }
    setlocale(LC_ALL, "C.UTF-8");
    for (int i = 0; i < 650; i++) LONGW[i] = L'w'; LONGW[650] = 0;
    arena_init(); fence_init(); shm_init(); probes_install();
    int dummy = 0; run_supervised(body, on_death, &dummy, 0, NSC * 100L, 30);
    for (int i = 0; i < K_NUM; i++) emit_counter(KN[i], CTR(i));
    emit_counter("scenarios", NSC);
    fprintf(g_out, "{\"t\":\"end\"}\n"); fflush(g_out);
    return 0;
}
