/* C15: multibyte <-> wide conversions against libc, round trip, size query, invalid input; plus the generic
 * observations C01/C02 (fence), C03 (terminator), C04 (cleared on failure), C05 (handler protocol), C08 (slack). */
#include "common.h"
#include <wchar.h>
#include <limits.h>

static const char *g_cfg = "plain"; static int g_noslack, g_tier, g_wid, g_nw = 1; static long g_only_idx = -1, g_skip_below;
static const char *g_loc = "C.UTF-8";
static int want(const char *p) { return !strcmp(g_prop, "ALL") || !strcmp(g_prop, p); }
enum { K_CALLS, K_C15, K_FAULT, K_INVALID, K_ROUNDTRIP, K_DEATH, K_NUM };
static const char *KN[] = {"calls", "c15_decided", "fence_faults", "invalid_input_cases", "round_trips", "worker_deaths"};
static unsigned long long K[K_NUM]; static char g_wit[900]; static int g_samples;
enum { F_MBSTOWCS, F_MBSRTOWCS, F_WCSTOMBS, F_WCSRTOMBS, F_WCRTOMB, F_WCTOMB, F_NUM };
static const char *FN[F_NUM] = {"mbstowcs_s", "mbsrtowcs_s", "wcstombs_s", "wcsrtombs_s", "wcrtomb_s", "wctomb_s"};
static const uint32_t CPS[4] = {0x41, 0xE9, 0x20AC, 0x1F600};

typedef struct { int fn; uint32_t cp[8]; size_t n; int inv; size_t invpos; int lenv, dmv, dnull, bos; } mscn;
static const char *invname(int i) { static const char *n[] = {"valid", "lone-continuation", "truncated-lead", "overlong", "surrogate", "above-10FFFF"}; return n[i]; }
static void wit(const mscn *s, long idx, const char *obs) {
    char cps[80] = ""; for (size_t i = 0; i < s->n; i++) sb_add(cps, sizeof cps, "%x ", s->cp[i]);
    snprintf(g_wit, sizeof g_wit, "{\"harness\":\"mbconv\",\"cfg\":\"%s\",\"locale\":\"%s\",\"fn\":\"%s\",\"idx\":%ld,\"codepoints\":\"%s\",\"invalid\":\"%s\",\"invpos\":%zu,\"lenvariant\":%d,\"dmaxvariant\":%d,\"dest_null\":%d,\"bos\":%d,\"obs\":\"%s\",\"replay\":\"mbconv --cfg %s --locale %s --idx %ld --tier %s\"}",
             g_cfg, g_loc, FN[s->fn], idx, cps, invname(s->inv), s->invpos, s->lenv, s->dmv, s->dnull, s->bos, obs, g_cfg, g_loc, idx, g_tier ? "thorough" : "quick");
}
static void vio(const char *prop, const mscn *s, long idx, const char *rule, const char *det, const char *obs) {
    char key[260], what[500];
    if (!want(prop)) return;
    snprintf(key, sizeof key, "%s|%s|%s|%s|%s", FN[s->fn], rule, det, g_loc, (prop[2] == '1' && prop[1] == '0') || prop[2] == '3' || prop[2] == '4' || prop[2] == '8' ? g_cfg : "-");
    snprintf(what, sizeof what, "%s: %s: %s", FN[s->fn], rule, obs);
    char eo[300] = ""; for (const char *p = obs; *p && strlen(eo) < 290; p++) if (*p != '"' && *p != '\\' && (unsigned char)*p >= 32 && (unsigned char)*p < 127) sb_add(eo, sizeof eo, "%c", *p);
    wit(s, idx, eo); report(prop, key, what, g_wit);
}
static size_t enc(uint32_t c, unsigned char *o) {
    if (c < 0x80) { o[0] = (unsigned char)c; return 1; } if (c < 0x800) { o[0] = 0xC0 | (c >> 6); o[1] = 0x80 | (c & 63); return 2; }
    if (c < 0x10000) { o[0] = 0xE0 | (c >> 12); o[1] = 0x80 | ((c >> 6) & 63); o[2] = 0x80 | (c & 63); return 3; }
    o[0] = 0xF0 | (c >> 18); o[1] = 0x80 | ((c >> 12) & 63); o[2] = 0x80 | ((c >> 6) & 63); o[3] = 0x80 | (c & 63); return 4;
}

static wchar_t rw[64]; static char rm[200];
static void run_case(mscn *s, long idx) {
    unsigned char mb[64]; size_t mbn = 0, mboff[9]; wchar_t wc[12]; char obs[300];
    int utf8 = !strcmp(g_loc, "C.UTF-8");
    for (size_t i = 0; i < s->n; i++) {
        mboff[i] = mbn;
        if (s->inv && i == s->invpos && s->fn <= F_MBSRTOWCS) {
            static const unsigned char bad[5][4] = {{0x80}, {0xC3}, {0xC0, 0x80}, {0xED, 0xA0, 0x80}, {0xF4, 0x90, 0x80, 0x80}}; static const size_t bl[5] = {1, 1, 2, 3, 4};
            memcpy(mb + mbn, bad[s->inv - 1], bl[s->inv - 1]); mbn += bl[s->inv - 1];
        } else mbn += enc(s->cp[i], mb + mbn);
        wc[i] = (wchar_t)s->cp[i];
        if (s->inv && i == s->invpos && s->fn >= F_WCSTOMBS) wc[i] = s->inv == 4 ? 0xD800 : s->inv == 5 ? 0x110000 : 0xDC00;
    }
    mboff[s->n] = mbn; mb[mbn] = 0; wc[s->n] = 0;
    /* is the input valid in this locale? (libc decides) */
    mbstate_t st0; memset(&st0, 0, sizeof st0);
    int to_wide = s->fn <= F_MBSRTOWCS, single = s->fn >= F_WCRTOMB;
    size_t full;   /* complete conversion count */
    if (to_wide) full = mbstowcs(NULL, (char *)mb, 0); else if (!single) full = wcstombs(NULL, wc, 0); else { char t[MB_LEN_MAX + 1]; full = wcrtomb(t, s->n ? wc[0] : 0, &st0); }
    int valid = full != (size_t)-1;
    (void)utf8;
    /* reference: libc itself, limited to the same len, on private buffers (so validity is judged for the part that is converted) */
    size_t len, k, dmax; int stopped_early = 0;
    if (single) { len = 0; k = valid ? full : 0; }
    else {
        size_t lens[4] = {full != (size_t)-1 && full > 0 ? full - 1 : 0, full != (size_t)-1 ? full : s->n, (full != (size_t)-1 ? full : s->n) + 1, 40}; len = lens[s->lenv];
        if (to_wide) { k = mbstowcs(rw, (char *)mb, len); } else { k = wcstombs(rm, wc, len); }
        valid = k != (size_t)-1;
        if (valid && full != (size_t)-1 && k < full) stopped_early = 1;
        if (valid && full == (size_t)-1) stopped_early = 1;
        if (!valid) k = 0;
    }
    size_t dms[4] = {k ? k : 1, k + 1, k + 3, 1}; dmax = dms[s->dmv];
    int ew = to_wide ? 4 : 1;
    uint8_t *dest = s->dnull ? NULL : place_end(0, dmax * ew);
    if (dest) { memset(dest - 32, CANARY, 32); for (size_t i = 0; i < dmax * ew; i++) dest[i] = (uint8_t)(0x61 + i % 26); }
    /* source: exact-fit, terminated */
    void *src = to_wide ? place_end(1, mbn + 1) : place_end(1, (s->n + 1) * 4);
    if (to_wide) memcpy(src, mb, mbn + 1); else memcpy(src, wc, (s->n + 1) * 4);
    size_t *retp = place_end(2, sizeof(size_t)); *retp = 0x5a5a5a5a; int *iret = place_end(2, sizeof(int));
    const void **srcp = place_end(3, sizeof(void *)); *srcp = src;
    mbstate_t *ps = place_end(4, sizeof(mbstate_t)); memset(ps, 0, sizeof *ps);
    size_t bos = s->dnull ? BOS_UNKNOWN : (s->bos ? dmax * ew : BOS_UNKNOWN);
    if (s->dnull) dmax = 0;
    errno_t rc = -999; probes_reset(); g_cur_fn = FN[s->fn];
    g_shm->in_call = 1;
    switch (s->fn) {
    case F_MBSTOWCS:  FENCED(rc = _mbstowcs_s_chk(retp, (wchar_t *)dest, dmax, src, len, bos)); break;
    case F_MBSRTOWCS: FENCED(rc = _mbsrtowcs_s_chk(retp, (wchar_t *)dest, dmax, (const char **)srcp, len, ps, bos)); break;
    case F_WCSTOMBS:  FENCED(rc = _wcstombs_s_chk(retp, (char *)dest, dmax, src, len, bos)); break;
    case F_WCSRTOMBS: FENCED(rc = _wcsrtombs_s_chk(retp, (char *)dest, dmax, (const wchar_t **)srcp, len, ps, bos)); break;
    case F_WCRTOMB:   FENCED(rc = _wcrtomb_s_chk(retp, (char *)dest, dmax, s->n ? wc[0] : 0, ps, bos)); break;
    case F_WCTOMB:    *iret = 0x5a5a; FENCED(rc = _wctomb_s_chk(iret, (char *)dest, dmax, s->n ? wc[0] : 0, bos)); break;
    }
    g_shm->in_call = 0; K[K_CALLS]++;
    size_t ret = s->fn == F_WCTOMB ? (size_t)*iret : *retp;
    const char *lcls = single ? "single" : s->lenv == 0 ? "len<n" : s->lenv == 1 ? "len=n" : s->lenv == 2 ? "len=n+1" : "len-big";
    const char *dcls = s->dnull ? "dest-null" : s->dmv == 0 ? "dmax=k(no-room-for-NUL)" : s->dmv == 1 ? "dmax=k+1" : s->dmv == 2 ? "dmax=k+3" : "dmax=1";
    char det[120]; snprintf(det, sizeof det, "%s|%s|%s", valid ? (s->n ? "valid" : "empty") : invname(s->inv ? s->inv : 1), lcls, dcls);
    {   char b[200]; snprintf(b, sizeof b, "%s;%s;%zu;%d;%s", FN[s->fn], det, s->n, s->bos, g_fence.faulted ? "fault" : errname(rc)); distinct_add(hash_str(b)); }
    if (g_fence.faulted) {
        K[K_FAULT]++;
        long off = dest ? (long)(g_fence.addr - (uintptr_t)dest) : 0;
        snprintf(obs, sizeof obs, "%s fault at dest%+ld (dmax %zu elements of %d bytes, len %zu)", g_fence.is_write ? "WRITE" : "READ", off, dmax, ew, len);
        vio(g_fence.is_write ? "C01" : "C02", s, idx, g_fence.is_write ? "W-fault" : "R-fault", dest && off >= (long)(dmax * ew) ? (len > dmax ? "past-dest|len>dmax" : "past-dest") : "elsewhere", obs);
        return;
    }
    if (dest) for (int i = 0; i < 32; i++) if (dest[-32 + i] != CANARY) { vio("C01", s, idx, "write-before-dest", det, "canary in front of dest changed"); break; }
    int hc = g_h.count;
    if (hc > 1) { snprintf(obs, sizeof obs, "%d handler invocations, rc %s", hc, errname(rc)); vio("C05", s, idx, "R1-handler-invoked-more-than-once", det, obs); }
    else if (hc == 1 && g_h.code[0] != rc) { snprintf(obs, sizeof obs, "handler got %s, returned %s", errname(g_h.code[0]), errname(rc)); vio("C05", s, idx, "R2-handler-code-differs-from-returned-code", det, obs); }
    /* an encoding error is not a runtime-constraint violation (K.3.6.5.1: "returns zero if no runtime-constraint violation and no encoding
       error occurred"): EILSEQ without a handler call is conforming */
    else if (hc == 0 && rc != EOK && rc != EILSEQ) { snprintf(obs, sizeof obs, "returned %s without handler", errname(rc)); vio("C05", s, idx, "R3-failure-returned-without-handler", det, obs); }
    /* C03 / C04 / C08 */
    size_t dlen = 0; int term = 0;
    if (dest) { for (dlen = 0; dlen < dmax; dlen++) if ((ew == 4 ? ((uint32_t *)dest)[dlen] : dest[dlen]) == 0) { term = 1; break; } }
    char det34[64]; snprintf(det34, sizeof det34, "rc=%s|%s", errname(rc), s->bos ? "bos=exact" : "bos=unknown");
    if (dest && !term) { snprintf(obs, sizeof obs, "no terminator in dest[0..%zu) after rc=%s (%s)", dmax, errname(rc), det); vio("C03", s, idx, "unterminated-dest", det34, obs); }
    if (dest && rc != EOK) { uint32_t d0 = ew == 4 ? ((uint32_t *)dest)[0] : dest[0]; if (d0) { snprintf(obs, sizeof obs, "rc=%s but dest[0]=%#x (%s)", errname(rc), d0, det); vio("C04", s, idx, "dest[0]-not-zero", det34, obs); }
        else if (!g_noslack) for (size_t i = 0; i < dmax * ew; i++) if (dest[i]) { snprintf(obs, sizeof obs, "rc=%s but byte %zu of dest is %#x (%s)", errname(rc), i, dest[i], det); vio("C04", s, idx, "not-all-zero-after-failure", det34, obs); break; } }
    /* C15 */
    K[K_C15]++;
    if (!valid) {
        K[K_INVALID]++;
        if (rc == EOK && !(s->dnull)) { snprintf(obs, sizeof obs, "invalid input (%s at %zu) but rc=EOK, retval %zu", invname(s->inv), s->invpos, ret); vio("C15", s, idx, "invalid-sequence-not-reported", det, obs); }
        /* conversion state usable again: a valid conversion with the same state object */
        if (s->fn == F_MBSRTOWCS || s->fn == F_WCSRTOMBS || s->fn == F_WCRTOMB) {
            size_t r2 = 0; errno_t rc2;
            if (s->fn == F_MBSRTOWCS) { static wchar_t o[8]; const char *p = "ok"; rc2 = _mbsrtowcs_s_chk(&r2, o, 8, &p, 7, ps, sizeof o); if (rc2 != EOK || r2 != 2 || o[0] != 'o') { snprintf(obs, sizeof obs, "after the failed call, converting \"ok\" with the same mbstate_t gives rc=%s retval=%zu", errname(rc2), r2); vio("C15", s, idx, "state-unusable-after-error", invname(s->inv), obs); } }
            else if (s->fn == F_WCSRTOMBS) { static char o[8]; const wchar_t *p = L"ok"; rc2 = _wcsrtombs_s_chk(&r2, o, 8, &p, 7, ps, sizeof o); if (rc2 != EOK || r2 != 2 || o[0] != 'o') { snprintf(obs, sizeof obs, "after the failed call, converting L\"ok\" with the same mbstate_t gives rc=%s retval=%zu", errname(rc2), r2); vio("C15", s, idx, "state-unusable-after-error", invname(s->inv), obs); } }
            else { static char o[8]; rc2 = _wcrtomb_s_chk(&r2, o, 8, L'k', ps, sizeof o); if (rc2 != EOK || r2 != 1 || o[0] != 'k') { snprintf(obs, sizeof obs, "after the failed call, wcrtomb_s('k') with the same state gives rc=%s retval=%zu", errname(rc2), r2); vio("C15", s, idx, "state-unusable-after-error", invname(s->inv), obs); } }
        }
        return;
    }
    if (single) {
        char refb[MB_LEN_MAX + 1]; mbstate_t t; memset(&t, 0, sizeof t); size_t b = wcrtomb(refb, s->n ? wc[0] : 0, &t);
        if (s->dnull) { if (rc != EOK && want("C15") && s->fn == F_WCRTOMB) { snprintf(obs, sizeof obs, "size/state query (dest NULL) failed rc=%s", errname(rc)); vio("C15", s, idx, "null-dest-query-fails", det, obs); } return; }
        if (b == dmax) return;   /* the library keeps dest a terminated string: whether exactly-fitting bytes without room for the NUL are an error is left open by its documentation */
        if (b < dmax) { if (rc != EOK) { snprintf(obs, sizeof obs, "libc needs %zu bytes, dmax %zu, rc=%s", b, dmax, errname(rc)); vio("C15", s, idx, "fails-although-result-fits", det, obs); }
            else if (ret != b || memcmp(dest, refb, b)) { snprintf(obs, sizeof obs, "retval %zu / bytes differ, libc gives %zu bytes", ret, b); vio("C15", s, idx, "differs-from-libc", det, obs); vio("C06", s, idx, "differs-from-libc", det, obs); } }
        else if (rc == EOK) { snprintf(obs, sizeof obs, "needs %zu bytes, dmax %zu, yet EOK", b, dmax); vio("C15", s, idx, "success-although-no-space", det, obs); vio("C06", s, idx, "success-although-no-space", det, obs); }
        return;
    }
    if (s->dnull) {   /* size query */
        if (full == (size_t)-1) return;   /* invalid somewhere: an error is the right answer */
        if (rc != EOK || ret != full) { snprintf(obs, sizeof obs, "size query returned rc=%s retval=%zu, libc says %zu", errname(rc), ret, full); vio("C15", s, idx, "size-query-differs-from-libc", det, obs); return; }
        /* the converting form with exactly that space must then succeed */
        size_t r2 = 0; errno_t rc2; static wchar_t wo[16]; static char co[64];
        if (to_wide) rc2 = _mbstowcs_s_chk(&r2, wo, full + 1, src, full, (full + 1) * 4); else rc2 = _wcstombs_s_chk(&r2, co, full + 1, src, full, full + 1);
        if (rc2 != EOK || r2 != full) { snprintf(obs, sizeof obs, "query said %zu, converting with dmax=%zu len=%zu gives rc=%s retval=%zu", full, full + 1, full, errname(rc2), r2); vio("C15", s, idx, "size-query-then-convert-fails", to_wide ? "to-wide" : "to-multibyte", obs); }
        return;
    }
    int fits = k < dmax;
    if (fits) {
        if (rc != EOK) { snprintf(obs, sizeof obs, "converted length %zu fits in dmax %zu (len %zu) but rc=%s", k, dmax, len, errname(rc)); vio("C15", s, idx, "fails-although-result-fits", det, obs); return; }
        int same; if (to_wide) same = !memcmp(dest, rw, k * 4) && ((uint32_t *)dest)[k] == 0; else same = !memcmp(dest, rm, k) && dest[k] == 0;   /* against libc's own output */
        if (ret != k || !same) { snprintf(obs, sizeof obs, "retval %zu (libc limited to the space: %zu) or converted characters differ", ret, k); vio("C15", s, idx, "differs-from-libc", det, obs); vio("C06", s, idx, "differs-from-libc", det, obs); return; }
        if (!g_noslack) for (size_t i = (k + 1) * ew; i < dmax * ew; i++) if (dest[i]) { snprintf(obs, sizeof obs, "converted %zu, dmax %zu, stale byte at %zu", k, dmax, i); vio("C08", s, idx, "stale-data-behind-terminator", det, obs); break; }
        if (s->fn == F_MBSRTOWCS || s->fn == F_WCSRTOMBS) {
            const void *expsrc = (!stopped_early) ? NULL : (to_wide ? (const void *)((char *)src + mboff[k]) : (const void *)((wchar_t *)src + 0));
            if (!stopped_early && len > k && *srcp != NULL) { vio("C15", s, idx, "srcp-not-null-after-complete-conversion", det, "*srcp should be NULL when the terminator was converted"); }
            else if (stopped_early && !s->inv && to_wide && *srcp != expsrc) { snprintf(obs, sizeof obs, "*srcp at offset %ld, libc would leave it at %zu", (long)((char *)*srcp - (char *)src), mboff[k]); vio("C15", s, idx, "srcp-differs-from-libc", det, obs); }
        }
    } else if (rc == EOK) { snprintf(obs, sizeof obs, "needs %zu+1 elements, dmax %zu, yet EOK (retval %zu)", k, dmax, ret); vio("C15", s, idx, "success-although-no-space", det, obs); vio("C06", s, idx, "success-although-no-space", det, obs); }
    if (g_verbose) { wit(s, idx, "verbose"); fprintf(g_out, "%s\n", g_wit); }
    if (g_samples < 5 && idx % 1009 == (long)(g_seed % 1009)) { wit(s, idx, "sample"); emit_sample(g_wit); g_samples++; }
}
static void roundtrips(void) {
    /* wide -> multibyte -> wide through the library itself, ample space */
    size_t maxn = g_tier ? 5 : 4; mscn s; memset(&s, 0, sizeof s); s.fn = F_WCSTOMBS;
    for (size_t n = 0; n <= maxn; n++) { unsigned long tot = 1; for (size_t i = 0; i < n; i++) tot *= 4;
        for (unsigned long code = 0; code < tot; code++) { wchar_t w[8], back[8]; char m[40]; unsigned long c = code; for (size_t i = 0; i < n; i++) { w[i] = (wchar_t)CPS[c % 4]; s.cp[i] = CPS[c % 4]; c /= 4; } w[n] = 0; s.n = n;
            size_t r1 = 0, r2 = 0; errno_t a = _wcstombs_s_chk(&r1, m, sizeof m, w, sizeof m - 1, sizeof m); errno_t b = a == EOK ? _mbstowcs_s_chk(&r2, back, 8, m, 7, sizeof back) : -1; K[K_ROUNDTRIP]++;
            int valid = wcstombs(NULL, w, 0) != (size_t)-1;
            if (valid && n && (a != EOK || b != EOK || r2 != n || wmemcmp(w, back, n + 1))) { char obs[200]; snprintf(obs, sizeof obs, "wcstombs_s rc=%s (%zu bytes), mbstowcs_s rc=%s (%zu chars), string of %zu characters", errname(a), r1, errname(b), r2, n); vio("C15", &s, -1, "round-trip-changes-string", "wcs-mbs-wcs", obs); }
        } }
}
/* overlapping operands ("Copying shall not take place between objects that overlap", "ESOVRLP when src and dest overlap"): src starting k bytes
 * into dest, or dest starting inside the source string.  Either the overlap is reported (handler once, dest emptied) or the call returns exactly
 * what disjoint operands give; a silently different result is a violation that went unreported. */
static void overlaps(void) {
    static const char *MB[] = {"a", "abc", "abcdefgh", "gr\xc3\xbc\xc3\x9f" "e"}; static const wchar_t *WC[] = {L"a", L"abc", L"abcdefgh", L"grüß" L"e"};
    char obs[300]; mscn s; memset(&s, 0, sizeof s);
    for (int fn = F_MBSTOWCS; fn <= F_WCSRTOMBS; fn++) for (int si = 0; si < 4; si++) {
        int to_wide = fn <= F_MBSRTOWCS; s.fn = fn; s.n = 0;
        wchar_t rw[16]; char rm[64]; size_t k = to_wide ? mbstowcs(rw, MB[si], 15) : wcstombs(rm, WC[si], 63); if (k == (size_t)-1) continue;
        size_t srcb = to_wide ? strlen(MB[si]) + 1 : (wcslen(WC[si]) + 1) * 4, dmax = k + 3, destb = dmax * (to_wide ? 4 : 1), step = to_wide ? 1 : 4;
        for (long off = -(long)srcb; off <= (long)destb; off += (long)step) {      /* src = dest + off (bytes); the two ends of the range are operands that touch without overlapping */
            if (!to_wide && off % 4) continue; if (to_wide && off < 0 && (-off) % 4) continue;   /* keep both operands aligned for their type */
            size_t tot = destb + srcb + (size_t)(off < 0 ? -off : off) + 8;
            uint8_t *blk = place_end(0, (tot + 7) & ~(size_t)7); memset(blk, 0x6b, tot);
            uint8_t *dest = off >= 0 ? blk : blk + (-off), *src = off >= 0 ? blk + off : blk;
            memcpy(src, to_wide ? (const void *)MB[si] : (const void *)WC[si], srcb);
            size_t *retp = place_end(2, sizeof(size_t)); *retp = 0x5a5a5a5a; const void **srcp = place_end(3, sizeof(void *)); *srcp = src;
            mbstate_t *ps = place_end(4, sizeof(mbstate_t)); memset(ps, 0, sizeof *ps);
            errno_t rc = -999; probes_reset(); g_cur_fn = FN[fn]; g_shm->in_call = 1;
            switch (fn) {
            case F_MBSTOWCS:  FENCED(rc = _mbstowcs_s_chk(retp, (wchar_t *)dest, dmax, (char *)src, dmax - 1, BOS_UNKNOWN)); break;
            case F_MBSRTOWCS: FENCED(rc = _mbsrtowcs_s_chk(retp, (wchar_t *)dest, dmax, (const char **)srcp, dmax - 1, ps, BOS_UNKNOWN)); break;
            case F_WCSTOMBS:  FENCED(rc = _wcstombs_s_chk(retp, (char *)dest, dmax, (wchar_t *)src, dmax - 1, BOS_UNKNOWN)); break;
            default:          FENCED(rc = _wcsrtombs_s_chk(retp, (char *)dest, dmax, (const wchar_t **)srcp, dmax - 1, ps, BOS_UNKNOWN)); break;
            }
            g_shm->in_call = 0; K[K_CALLS]++;
            char det[100]; snprintf(det, sizeof det, "overlap|%s", off == 0 ? "same-pointer" : off > 0 ? "src-inside-dest" : "dest-inside-src");
            {   char b[160]; snprintf(b, sizeof b, "%s;%s;%d;%s", FN[fn], det, si, g_fence.faulted ? "fault" : errname(rc)); distinct_add(hash_str(b)); }
            if (g_fence.faulted) { snprintf(obs, sizeof obs, "%s fault with src = dest%+ld bytes", g_fence.is_write ? "WRITE" : "READ", off); vio(g_fence.is_write ? "C01" : "C02", &s, -1, g_fence.is_write ? "W-fault" : "R-fault", det, obs); continue; }
            if (off == -(long)srcb || off == (long)destb) {   /* adjacent, not overlapping: valid input */
                int same = rc == EOK && *retp == k && (to_wide ? (!memcmp(dest, rw, k * 4) && ((uint32_t *)dest)[k] == 0) : (!memcmp(dest, rm, k) && dest[k] == 0));
                if (!same) { snprintf(obs, sizeof obs, "src = dest%+ld bytes (the operands touch but do not overlap): returned %s retval %zu, libc converts %zu", off, errname(rc), *retp, k);
                    vio("C15", &s, -1, "adjacent-operands-rejected-or-wrong", "adjacent", obs); vio("C05", &s, -1, "R4-valid-call-reported-as-violation", "adjacent-operands", obs); }
                continue;
            }
            if (rc == ESOVRLP) { if (g_h.count != 1) { snprintf(obs, sizeof obs, "ESOVRLP with %d handler calls (src = dest%+ld bytes)", (int)g_h.count, off); vio("C05", &s, -1, "R1-handler-invoked-more-than-once", det, obs); } continue; }
            int same = rc == EOK && *retp == k && (to_wide ? (!memcmp(dest, rw, k * 4) && ((uint32_t *)dest)[k] == 0) : (!memcmp(dest, rm, k) && dest[k] == 0));
            if (!same) { snprintf(obs, sizeof obs, "src = dest%+ld bytes (source of %zu bytes, dmax %zu): returned %s retval %zu, disjoint operands give EOK and %zu: the overlap is not reported and the result differs", off, srcb, dmax, errname(rc), *retp, k);
                vio("C05", &s, -1, "overlap-not-reported-and-result-differs", det, obs); }
        }
    }
}
static void gen(void) {
    long idx = 0; mscn s; size_t maxn = g_tier ? 4 : 3;
    for (int fn = 0; fn < F_NUM; fn++) for (size_t n = 0; n <= (fn >= F_WCRTOMB ? 1 : maxn); n++) { unsigned long tot = 1; for (size_t i = 0; i < n; i++) tot *= 4;
        for (unsigned long code = 0; code < tot; code++) for (int inv = 0; inv < 6; inv++) for (size_t ip = 0; ip < (inv ? (n ? n : 1) : 1); ip++)
        for (int lenv = 0; lenv < (fn >= F_WCRTOMB ? 1 : 4); lenv++) for (int dmv = 0; dmv < 4; dmv++) for (int dnull = 0; dnull < 2; dnull++) {
            if (inv && n == 0) continue; if (dnull && dmv) continue;   /* a null dest with dmax != 0 violates K.3.6.5.x ("if dst is a null pointer, dstmax shall equal zero"): not valid input */
            if (inv && fn >= F_WCSTOMBS && inv < 4) continue;            /* wide invalid values: surrogate, above 10FFFF */
            long my = idx++; if (g_only_idx >= 0 ? my != g_only_idx : (my % g_nw != g_wid || my < g_skip_below)) continue;
            memset(&s, 0, sizeof s); s.fn = fn; s.n = n; unsigned long c = code; for (size_t i = 0; i < n; i++) { s.cp[i] = CPS[c % 4]; c /= 4; }
            s.inv = inv; s.invpos = ip; s.lenv = lenv; s.dmv = dmv; s.dnull = dnull; s.bos = (int)(my & 1);
            g_shm->cur = my; run_case(&s, my);
        } }
    if (g_wid == 0 && g_only_idx < 0) { roundtrips(); overlaps(); }
}
static void body(void *a, long lo, long hi) { (void)a; (void)hi; g_skip_below = lo; gen(); for (int i = 0; i < K_NUM; i++) __sync_fetch_and_add(&CTR(i), K[i]); __sync_fetch_and_add(&CTR(60), g_fp_checks); distinct_emit(); }
static void on_death(void *a, long idx, int status, int hung) {
    (void)a; char key[200], what[300], w[300]; CTR(K_DEATH)++;
    if (!g_shm->in_call) { fprintf(g_out, "{\"t\":\"harness_error\",\"idx\":%ld,\"status\":%d}\n", idx, status); fflush(g_out); return; }
    snprintf(key, sizeof key, "mbconv|worker-%s|%s|%s", hung ? "hang" : "death", hung ? "watchdog" : WIFSIGNALED(status) ? strsignal(WTERMSIG(status)) : "exit", g_loc);
    snprintf(what, sizeof what, "process %s in conversion case %ld (status %#x)", hung ? "hung" : "died", idx, status);
    snprintf(w, sizeof w, "{\"harness\":\"mbconv\",\"cfg\":\"%s\",\"idx\":%ld,\"replay\":\"mbconv --cfg %s --locale %s --idx %ld --tier %s\"}", g_cfg, idx, g_cfg, g_loc, idx, g_tier ? "thorough" : "quick");
    report(want("C01") ? "C01" : want("C15") ? "C15" : g_prop, key, what, w);
}
int main(int argc, char **argv) {
    g_out = stdout;
    for (int i = 1; i < argc; i++) {
        if (!strcmp(argv[i], "--prop")) g_prop = argv[++i];
        else if (!strcmp(argv[i], "--tier")) g_tier = !strcmp(argv[++i], "thorough");
        else if (!strcmp(argv[i], "--seed")) g_seed = strtoull(argv[++i], NULL, 10);
        else if (!strcmp(argv[i], "--worker")) sscanf(argv[++i], "%d/%d", &g_wid, &g_nw);
        else if (!strcmp(argv[i], "--cfg")) { g_cfg = argv[++i]; g_noslack = !strcmp(g_cfg, "noslack"); }
        else if (!strcmp(argv[i], "--locale")) g_loc = argv[++i];
        else if (!strcmp(argv[i], "--idx")) g_only_idx = atol(argv[++i]);
        else if (!strcmp(argv[i], "--verbose")) g_verbose = 1;
        else { fprintf(stderr, "unknown arg %s\n", argv[i]); return 2; }
    }
    if (!setlocale(LC_ALL, g_loc)) { fprintf(g_out, "{\"t\":\"harness_error\",\"why\":\"locale %s\"}\n", g_loc); return 2; }
    arena_init(); fence_init(); shm_init(); probes_install(); fp_init();
    int dummy = 0; run_supervised(body, on_death, &dummy, 0, 1L << 40, 30);
    for (int i = 0; i < K_NUM; i++) emit_counter(KN[i], CTR(i));
    emit_counter("footprint_checks", CTR(60));
    fprintf(g_out, "{\"t\":\"end\"}\n"); fflush(g_out);
    return 0;
}
