/* engine: producer families (copy / concat / bounded copy / field copy / memory copy+move /
 * memccpy / fill / in-place) under the fence, with monitors for C01..C08.
 *
 * usage: engine --prop Cxx|ALL --tier quick|thorough --seed N --worker i/n --cfg NAME
 *               [--fn name] [--idx k] [--mode main|overlap] [--verbose]
 */
#include "engine.h"
#include <ctype.h>
#include <wctype.h>

#ifndef RSIZE_MAX_WSTR
#define RSIZE_MAX_WSTR (RSIZE_MAX_STR / sizeof(wchar_t))
#endif

static const char *g_cfg = "plain";
static int g_noslack = 0;
static int g_tier = 0;          /* 0 quick 1 thorough */
static int g_wid = 0, g_nw = 1;
static const char *g_only_fn = NULL;
static long g_only_idx = -1;
static int g_mode = 0;          /* 0 main 1 overlap */

static int want(const char *p) { return strcmp(g_prop, "ALL") == 0 || strcmp(g_prop, p) == 0; }

/* ------------------------------------------------------------------ adapters */
#define ADAPT(name, expr) static void call_##name(ctx_t *c) { expr; }
ADAPT(strcpy_s,  c->ret = _strcpy_s_chk(c->dest, c->dmax, c->src, c->destbos))
ADAPT(strcat_s,  c->ret = _strcat_s_chk(c->dest, c->dmax, c->src, c->destbos))
ADAPT(strncpy_s, c->ret = _strncpy_s_chk(c->dest, c->dmax, c->src, c->slen, c->destbos, c->srcbos))
ADAPT(strncat_s, c->ret = _strncat_s_chk(c->dest, c->dmax, c->src, c->slen, c->destbos, c->srcbos))
ADAPT(stpcpy_s,  c->retp = _stpcpy_s_chk(c->dest, c->dmax, c->src, (errno_t *)c->out, c->destbos, c->srcbos); c->ret = *(errno_t *)c->out)
ADAPT(stpncpy_s, c->retp = _stpncpy_s_chk(c->dest, c->dmax, c->src, c->slen, (errno_t *)c->out, c->destbos, c->srcbos); c->ret = *(errno_t *)c->out)
ADAPT(wcscpy_s,  c->ret = _wcscpy_s_chk(c->dest, c->dmax, c->src, c->destbos))
ADAPT(wcscat_s,  c->ret = _wcscat_s_chk(c->dest, c->dmax, c->src, c->destbos))
ADAPT(wcsncpy_s, c->ret = _wcsncpy_s_chk(c->dest, c->dmax, c->src, c->slen, c->destbos, c->srcbos))
ADAPT(wcsncat_s, c->ret = _wcsncat_s_chk(c->dest, c->dmax, c->src, c->slen, c->destbos, c->srcbos))
ADAPT(memcpy_s,    c->ret = _memcpy_s_chk(c->dest, c->dmax, c->src, c->slen, c->destbos, c->srcbos))
ADAPT(memmove_s,   c->ret = _memmove_s_chk(c->dest, c->dmax, c->src, c->slen, c->destbos, c->srcbos))
ADAPT(memcpy16_s,  c->ret = _memcpy16_s_chk(c->dest, c->dmax, c->src, c->slen, c->destbos, c->srcbos))
ADAPT(memcpy32_s,  c->ret = _memcpy32_s_chk(c->dest, c->dmax, c->src, c->slen, c->destbos, c->srcbos))
ADAPT(memmove16_s, c->ret = _memmove16_s_chk(c->dest, c->dmax, c->src, c->slen, c->destbos, c->srcbos))
ADAPT(memmove32_s, c->ret = _memmove32_s_chk(c->dest, c->dmax, c->src, c->slen, c->destbos, c->srcbos))
ADAPT(wmemcpy_s,   c->ret = _wmemcpy_s_chk(c->dest, c->dmax, c->src, c->slen, c->destbos, c->srcbos))
ADAPT(wmemmove_s,  c->ret = _wmemmove_s_chk(c->dest, c->dmax, c->src, c->slen, c->destbos, c->srcbos))
ADAPT(memccpy_s,   c->ret = _memccpy_s_chk(c->dest, c->dmax, c->src, (int)c->val, c->slen, c->destbos, c->srcbos))
ADAPT(strcpyfld_s,    c->ret = _strcpyfld_s_chk(c->dest, c->dmax, c->src, c->slen, c->destbos))
ADAPT(strcpyfldin_s,  c->ret = _strcpyfldin_s_chk(c->dest, c->dmax, c->src, c->slen, c->destbos))
ADAPT(strcpyfldout_s, c->ret = _strcpyfldout_s_chk(c->dest, c->dmax, c->src, c->slen, c->destbos))
/* fill */
ADAPT(memset_s,    c->ret = _memset_s_chk(c->dest, c->dmax, (int)c->val, c->slen, c->destbos))
ADAPT(memset16_s,  c->ret = _memset16_s_chk(c->dest, c->dmax, (uint16_t)c->val, c->slen, c->destbos))
ADAPT(memset32_s,  c->ret = _memset32_s_chk(c->dest, c->dmax, (uint32_t)c->val, c->slen, c->destbos))
ADAPT(memzero_s,   c->ret = _memzero_s_chk(c->dest, c->dmax, c->destbos))
ADAPT(memzero16_s, c->ret = _memzero16_s_chk(c->dest, c->dmax, c->destbos))
ADAPT(memzero32_s, c->ret = _memzero32_s_chk(c->dest, c->dmax, c->destbos))
ADAPT(strzero_s,   c->ret = _strzero_s_chk(c->dest, c->dmax, c->destbos))
ADAPT(strset_s,    c->ret = _strset_s_chk(c->dest, c->dmax, (int)c->val, c->destbos))
ADAPT(strnset_s,   c->ret = _strnset_s_chk(c->dest, c->dmax, (int)c->val, c->slen, c->destbos))
ADAPT(wcsset_s,    c->ret = _wcsset_s_chk(c->dest, c->dmax, (wchar_t)c->val, c->destbos))
ADAPT(wcsnset_s,   c->ret = _wcsnset_s_chk(c->dest, c->dmax, (wchar_t)c->val, c->slen, c->destbos))
/* in place */
ADAPT(strtolowercase_s, c->ret = _strtolowercase_s_chk(c->dest, c->dmax, c->destbos))
ADAPT(strtouppercase_s, c->ret = _strtouppercase_s_chk(c->dest, c->dmax, c->destbos))
ADAPT(strljustify_s,    c->ret = _strljustify_s_chk(c->dest, c->dmax, c->destbos))
ADAPT(strremovews_s,    c->ret = _strremovews_s_chk(c->dest, c->dmax, c->destbos))
ADAPT(strnterminate_s,  c->ret = 0; c->n = _strnterminate_s_chk(c->dest, c->dmax, c->destbos))
ADAPT(wcslwr_s,         c->ret = _wcslwr_s_chk(c->dest, c->dmax, c->destbos))
ADAPT(wcsupr_s,         c->ret = _wcsupr_s_chk(c->dest, c->dmax, c->destbos))

#define WL RSIZE_MAX_WSTR
#define SL RSIZE_MAX_STR
#define ML RSIZE_MAX_MEM
#define STRP (F_STR | F_SLACK | F_ERRCLR | F_C04)
static const desc_t D[] = {
  /* name            fam         ew du su flags                                              dlimit slimit */
  {"strcpy_s",       FAM_CPY,     1, 1, 0, STRP | F_STRSRC | F_SAMEOK,                        SL, 0, call_strcpy_s},
  {"stpcpy_s",       FAM_CPY,     1, 1, 0, STRP | F_STRSRC | F_SAMEOK | F_ERRP | F_SRCBOS,    SL, 0, call_stpcpy_s},
  {"wcscpy_s",       FAM_CPY,     4, 4, 0, STRP | F_STRSRC | F_SAMEOK | F_WIDE,               WL, 0, call_wcscpy_s},
  {"strncpy_s",      FAM_NCPY,    1, 1, 1, STRP | F_STRSRC | F_SRCBOS,                        SL, SL, call_strncpy_s},
  {"stpncpy_s",      FAM_NCPY,    1, 1, 1, STRP | F_STRSRC | F_SRCBOS | F_ERRP | F_SAMEOK,    SL, SL, call_stpncpy_s},
  {"wcsncpy_s",      FAM_NCPY,    4, 4, 4, STRP | F_STRSRC | F_SRCBOS | F_WIDE,               WL, WL, call_wcsncpy_s},
  {"strcat_s",       FAM_CAT,     1, 1, 0, STRP | F_STRSRC | F_DESTSTR,                       SL, 0, call_strcat_s},
  {"wcscat_s",       FAM_CAT,     4, 4, 0, STRP | F_STRSRC | F_DESTSTR | F_WIDE,              WL, 0, call_wcscat_s},
  {"strncat_s",      FAM_NCAT,    1, 1, 1, STRP | F_STRSRC | F_DESTSTR | F_SRCBOS,            SL, SL, call_strncat_s},
  {"wcsncat_s",      FAM_NCAT,    4, 4, 4, STRP | F_STRSRC | F_DESTSTR | F_SRCBOS | F_WIDE,   WL, WL, call_wcsncat_s},
  {"memcpy_s",       FAM_MEMCPY,  1, 1, 1, F_MEMK | F_ERRCLR | F_C04 | F_SRCBOS | F_SAMEOK | F_ZLENOK, ML, ML, call_memcpy_s},
  {"memcpy16_s",     FAM_MEMCPY,  2, 1, 2, F_MEMK | F_ERRCLR | F_C04 | F_SRCBOS | F_SAMEOK | F_ZLENOK, ML, ML / 2, call_memcpy16_s},
  {"memcpy32_s",     FAM_MEMCPY,  4, 1, 4, F_MEMK | F_ERRCLR | F_C04 | F_SRCBOS | F_SAMEOK | F_ZLENOK, ML, ML / 4, call_memcpy32_s},
  {"wmemcpy_s",      FAM_MEMCPY,  4, 4, 4, F_MEMK | F_ERRCLR | F_C04 | F_SRCBOS | F_SAMEOK | F_ZLENOK, ML / 4, ML / 4, call_wmemcpy_s},
  {"memmove_s",      FAM_MEMMOVE, 1, 1, 1, F_MEMK | F_ERRCLR | F_C04 | F_SRCBOS | F_SAMEOK | F_ZLENOK, ML, ML, call_memmove_s},
  {"memmove16_s",    FAM_MEMMOVE, 2, 1, 2, F_MEMK | F_ERRCLR | F_C04 | F_SRCBOS | F_SAMEOK | F_ZLENOK, ML, ML / 2, call_memmove16_s},
  {"memmove32_s",    FAM_MEMMOVE, 4, 1, 4, F_MEMK | F_ERRCLR | F_C04 | F_SRCBOS | F_SAMEOK | F_ZLENOK, ML, ML / 4, call_memmove32_s},
  {"wmemmove_s",     FAM_MEMMOVE, 4, 4, 4, F_MEMK | F_ERRCLR | F_C04 | F_SRCBOS | F_SAMEOK | F_ZLENOK, ML / 4, ML / 4, call_wmemmove_s},
  {"memccpy_s",      FAM_MEMCCPY, 1, 1, 1, F_MEMK | F_ERRCLR | F_C04 | F_SRCBOS,              ML, ML, call_memccpy_s},
  {"strcpyfld_s",    FAM_FLD,     1, 1, 1, F_ERRCLR | F_C04 | F_ZLENOK,                       SL, SL, call_strcpyfld_s},
  {"strcpyfldin_s",  FAM_FLDIN,   1, 1, 1, F_ERRCLR | F_C04 | F_ZLENOK | F_STRSRC,            SL, SL, call_strcpyfldin_s},
  {"strcpyfldout_s", FAM_FLDOUT,  1, 1, 1, F_STR | F_SLACK | F_ERRCLR | F_C04 | F_ZLENOK,     SL, SL, call_strcpyfldout_s},
  /* fill family: dest, dmax, value, n */
  {"memset_s",       FAM_SETN,    1, 1, 1, F_MEMK,                                            ML, ML, call_memset_s},
  {"memset16_s",     FAM_SETN,    2, 1, 2, F_MEMK,                                            ML, ML / 2, call_memset16_s},
  {"memset32_s",     FAM_SETN,    4, 1, 4, F_MEMK,                                            ML, ML / 4, call_memset32_s},
  {"memzero_s",      FAM_ZERO,    1, 1, 0, F_MEMK,                                            ML, 0, call_memzero_s},
  {"memzero16_s",    FAM_ZERO,    2, 2, 0, F_MEMK,                                            ML / 2, 0, call_memzero16_s},
  {"memzero32_s",    FAM_ZERO,    4, 4, 0, F_MEMK,                                            ML / 4, 0, call_memzero32_s},
  {"strzero_s",      FAM_ZERO,    1, 1, 0, F_STR | F_SLACK,                                             SL, 0, call_strzero_s},
  {"strset_s",       FAM_SET,     1, 1, 0, F_DESTSTR | F_SLACK,                                         SL, 0, call_strset_s},
  {"strnset_s",      FAM_SETN,    1, 1, 1, F_DESTSTR | F_SLACK,                                         SL, SL, call_strnset_s},
  {"wcsset_s",       FAM_SET,     4, 4, 0, F_DESTSTR | F_WIDE | F_SLACK,                                WL, 0, call_wcsset_s},
  {"wcsnset_s",      FAM_SETN,    4, 4, 4, F_DESTSTR | F_WIDE | F_SLACK,                                WL, WL, call_wcsnset_s},
  /* in-place transforms of a terminated string */
  {"strtolowercase_s", FAM_INPLACE, 1, 1, 0, F_DESTSTR,                                       SL, 0, call_strtolowercase_s},
  {"strtouppercase_s", FAM_INPLACE, 1, 1, 0, F_DESTSTR,                                       SL, 0, call_strtouppercase_s},
  {"strljustify_s",    FAM_INPLACE, 1, 1, 0, F_DESTSTR,                                       SL, 0, call_strljustify_s},
  {"strremovews_s",    FAM_INPLACE, 1, 1, 0, F_DESTSTR,                                       SL, 0, call_strremovews_s},
  {"strnterminate_s",  FAM_INPLACE, 1, 1, 0, F_STR,                                           SL, 0, call_strnterminate_s},
  {"wcslwr_s",         FAM_INPLACE, 4, 4, 0, F_DESTSTR | F_WIDE,                              WL, 0, call_wcslwr_s},
  {"wcsupr_s",         FAM_INPLACE, 4, 4, 0, F_DESTSTR | F_WIDE,                              WL, 0, call_wcsupr_s},
};
#define ND ((int)(sizeof D / sizeof D[0]))

/* ------------------------------------------------------------------ element helpers */
static inline uint32_t getel(const void *p, size_t i, int ew) {
    if (ew == 1) return ((const uint8_t *)p)[i];
    if (ew == 2) return ((const uint16_t *)p)[i];
    return ((const uint32_t *)p)[i];
}
static inline void setel(void *p, size_t i, int ew, uint32_t v) {
    if (ew == 1) ((uint8_t *)p)[i] = (uint8_t)v;
    else if (ew == 2) ((uint16_t *)p)[i] = (uint16_t)v;
    else ((uint32_t *)p)[i] = v;
}
static size_t elnlen(const void *p, size_t max, int ew) { size_t i; for (i = 0; i < max; i++) if (!getel(p, i, ew)) break; return i; }

/* content element number i for a buffer role; never zero; every byte of the element non-zero */
static uint32_t content_el(int alpha, uint64_t seed, size_t i, int ew) {
    uint64_t h = mix64(seed + i * 0x9E37ull);
    uint32_t v;
    switch (alpha) {
    default:
    case 0: v = 'a' + (uint32_t)(h % 5); break;                              /* small alphabet */
    case 1: v = 0x80 + (uint32_t)(h % 0x7f); break;                          /* high-bit bytes */
    case 2: { static const char m[] = "aA zZ09\t_-"; v = (uint8_t)m[h % 10]; } break;  /* mixed case, ws, digits */
    case 3: v = 1 + (uint32_t)(h % 255); break;                              /* any non-zero byte */
    }
    if (ew == 1) return v;
    if (ew == 2) return (v | ((uint32_t)(1 + (h >> 8) % 255) << 8));
    /* wide: non-zero in every byte when alpha==3, otherwise plain characters (incl. non-BMP for alpha 1) */
    if (alpha == 3) return v | ((uint32_t)(1 + (h >> 8) % 255) << 8) | ((uint32_t)(1 + (h >> 16) % 16) << 16) | 0x01000000u;
    if (alpha == 1) return (h & 1) ? 0x1F600 + (uint32_t)(h % 64) : 0xE9 + (uint32_t)(h % 20);
    return v;
}
/* dest garbage: every byte non-zero and different from CANARY */
static void fill_garbage(uint8_t *p, size_t n, uint64_t seed) {
    for (size_t i = 0; i < n; i++) p[i] = (uint8_t)(0x61 + (mix64(seed ^ (i * 31)) % 26));
}

/* ------------------------------------------------------------------ scenario -> memory */
typedef struct {
    uint8_t *dobj, *sobj;       /* object starts (NULL if none) */
    size_t dobjb, sobjb;
    uint8_t before_dest[SLOT_BYTES]; size_t nbefore;   /* image of dest object before the call */
    uint8_t before_src[SLOT_BYTES];  size_t nsrcb;
} mem_t;

static ctx_t C; static mem_t M;

static void materialize(const desc_t *d, const scn_t *s) {
    int dslot = s->order ? 1 : 0, sslot = s->order ? 0 : 1;
    memset(&C, 0, sizeof C); M.dobj = M.sobj = NULL; M.dobjb = M.sobjb = 0;
    arena_canary();
    /* out-parameter: exact-fit errno_t in slot 2 */
    C.out = place_end(2, sizeof(errno_t)); *(errno_t *)C.out = 0x5a5a5a5a;
    C.val = s->val; C.n = s->n;
    C.dmax = s->dmax; C.slen = s->slen;
    C.destbos = BOS_UNKNOWN; C.srcbos = BOS_UNKNOWN;
    if (s->ovl) {   /* both operands inside slot 0; the pair is end-flush */
        /* handled by materialize_overlap */
        return;
    }
    if (!s->dnull) {
        if (s->untruth == 1) { C.dest = slot_end(dslot) + 64; }
        else {
            M.dobjb = s->dobj;
            M.dobj = s->dplace ? place_begin(dslot) : place_end(dslot, s->dobj);
            C.dest = M.dobj;
            fill_garbage(M.dobj, M.dobjb, s->cseed ^ 0xD);
            if (s->dkind) {
                size_t i, ne = M.dobjb / d->ew;
                for (i = 0; i < s->dlen && i < ne; i++) setel(M.dobj, i, d->ew, content_el(s->alpha, s->cseed ^ 0xDD, i, d->ew));
                if (i < ne) setel(M.dobj, i, d->ew, 0);
                if (s->dkind == 2) for (i++; i < ne; i++) setel(M.dobj, i, d->ew, 0);
            }
            if (s->bos) C.destbos = M.dobjb;
        }
    }
    if (!s->snull && (d->fam <= FAM_FLDOUT)) {
        if (s->untruth == 2) { C.src = slot_end(sslot) + 64; }
        else {
            M.sobjb = s->sobj;
            M.sobj = s->splace ? place_begin(sslot) : place_end(sslot, s->sobj);
            C.src = M.sobj;
            size_t i, ne = M.sobjb / d->ew;
            for (i = 0; i < ne; i++) setel(M.sobj, i, d->ew, content_el(s->alpha, s->cseed ^ 0x5, i, d->ew));
            if (s->sterm && s->sstr < ne) setel(M.sobj, s->sstr, d->ew, 0);
            if (d->fam == FAM_MEMCCPY && s->n < ne) {   /* plant the stop character at position n (elements), remove earlier ones */
                for (i = 0; i < ne; i++) if (M.sobj[i] == (uint8_t)s->val) M.sobj[i] ^= 0x55;
                if (s->sterm) M.sobj[s->n] = (uint8_t)s->val;
            }
            if (s->bos && (d->fl & F_SRCBOS)) C.srcbos = M.sobjb;
        }
    }
}

/* ------------------------------------------------------------------ reference models
 * All operate on private copies; produce the expectation for a call that violates nothing. */
typedef struct {
    unsigned viol;            /* violated documented constraints */
    int has_res;              /* expected dest image valid */
    uint8_t res[SLOT_BYTES];  /* expected dest[0..resb) bytes */
    size_t resb;              /* bytes of dest whose value is determined on success (result incl. terminator) */
    size_t reslen;            /* elements before terminator (string results) */
    int res_is_str;
    void *retp; int has_retp;
    size_t wr_lo, wr_hi;      /* element range of dest that the call writes on success */
    size_t rd;                /* source elements read */
} exp_t;
static exp_t X;

static void classify_and_model(const desc_t *d, const scn_t *s) {
    int ew = d->ew;
    memset(&X, 0, offsetof(exp_t, res));
    X.resb = 0; X.reslen = 0; X.res_is_str = 0; X.retp = NULL; X.has_retp = 0; X.has_res = 0;
    unsigned v = 0;
    size_t dmaxb = s->dmax * (size_t)d->dunit;                  /* declared dest bytes */
    size_t dmax_el = dmaxb / ew;                                /* declared dest elements */
    int has_src = d->fam <= FAM_FLDOUT;
    int has_slen = d->sunit != 0;
    /* zero-length requests documented as success before anything else */
    if ((d->fl & F_ZLENOK) && has_slen && s->slen == 0) { X.viol = 0; X.has_res = 1; X.resb = 0; return; }
    if (s->dnull) v |= V_DNULL;
    if (s->dmax == 0) v |= V_DZERO;
    if ((!strcmp(d->name, "wcslwr_s") || !strcmp(d->name, "wcsupr_s")) && s->dmax == 0) { X.viol = s->dnull ? V_UNSURE : 0; X.has_res = 1; X.resb = 0; return; }  /* "EOK on slen = 0" */
    if (s->dmax > d->dlimit) v |= V_DMAX;
    if (!s->dnull && s->bos && s->untruth == 0 && dmaxb > s->dobj) v |= V_DBOS;
    if (has_src && s->snull) v |= V_SNULL;
    if (has_slen && s->slen > d->slimit) v |= V_SMAX;
    if (has_src && has_slen && !s->snull && s->bos && (d->fl & F_SRCBOS) && s->slen * (size_t)d->sunit > s->sobj) v |= V_SBOS;
    if (d->fam == FAM_SETN || d->fam == FAM_SET) {
        if (!strcmp(d->name, "memset_s") && s->val > 255) v |= V_VAL;
        if ((!strcmp(d->name, "strset_s") || !strcmp(d->name, "strnset_s")) && (unsigned long)s->val > 255) v |= V_VAL;
        if ((d->fl & F_WIDE) && (unsigned long)s->val > 0x10ffff) v |= V_VAL;
        if (d->fam == FAM_SETN && !(d->fl & F_DESTSTR) && s->slen == 0) {   /* "EOK when n = 0" */
            if (v) { X.viol = v | V_UNSURE; return; }
            X.viol = 0; X.has_res = 1; X.resb = 0; return;
        }
    }
    if (v && (d->fam == FAM_NCPY || d->fam == FAM_NCAT) && s->slen == 0) v |= V_UNSURE;      /* "EOK ... when slen == 0" vs. the other constraints: left open */
    if (v && d->fam == FAM_MEMCCPY && s->slen == 0) v |= V_UNSURE;   /* "EOK when n = 0" */
    if (d->fam == FAM_MEMCCPY) v &= ~V_SBOS;                         /* no source-size constraint is documented for memccpy_s */
    if (v) { X.viol = v; return; }

    const uint8_t *dp = M.dobj, *sp = M.sobj;
    size_t sobj_el = has_src ? s->sobj / ew : 0;
    switch (d->fam) {
    case FAM_CPY: case FAM_NCPY: case FAM_CAT: case FAM_NCAT: {
        size_t dl = 0, k, L = elnlen(sp, sobj_el, ew);   /* L == sobj_el means unterminated inside the object */
        if (d->fam == FAM_CAT || d->fam == FAM_NCAT) {
            dl = elnlen(dp, dmax_el, ew);
            if (dl == dmax_el) { X.viol = V_DUNT; return; }
        }
        if (has_slen) k = s->slen < L ? s->slen : L; else k = L;
        if (!has_slen && L == sobj_el) { X.viol = (s->bos && (d->fl & F_SRCBOS)) ? V_SUNT : V_UNSURE; return; }   /* documented ESUNTERM with a known source size */
        if (has_slen && L == sobj_el && s->slen > sobj_el) { X.viol = V_UNSURE; return; }
        if (d->fam == FAM_NCAT && s->slen == 0) {
            /* documented special case: EOK, "clear the rest of dest" */
            X.viol = 0; X.has_res = 1; X.res_is_str = 1; X.reslen = dl; X.resb = (dl + 1) * ew;
            memcpy(X.res, dp, dl * ew); memset(X.res + dl * ew, 0, ew);
            X.wr_lo = dl; X.wr_hi = dl; X.rd = 0;
            return;
        }
        if (d->fam == FAM_NCPY && s->slen == 0) {
            X.viol = 0; X.has_res = 1; X.res_is_str = 1; X.reslen = 0; X.resb = ew; memset(X.res, 0, ew);
            X.wr_lo = 0; X.wr_hi = 1; X.rd = 0;
            if (d->fl & F_ERRP) { X.has_retp = 1; X.retp = C.dest; }
            return;
        }
        X.rd = (k == L && L < sobj_el) ? k + 1 : k;
        if (dl + k >= dmax_el) { X.viol = V_NOSPC; X.wr_lo = dl; X.wr_hi = dmax_el; return; }
        X.has_res = 1; X.res_is_str = 1; X.reslen = dl + k; X.resb = (dl + k + 1) * ew;
        memcpy(X.res, dp, dl * ew); memcpy(X.res + dl * ew, sp, k * ew); memset(X.res + (dl + k) * ew, 0, ew);
        X.wr_lo = dl; X.wr_hi = dl + k + 1;
        if (d->fl & F_ERRP) { X.has_retp = 1; X.retp = (uint8_t *)C.dest + (dl + k) * ew; }
        break; }
    case FAM_MEMCPY: case FAM_MEMMOVE: {
        size_t nb = s->slen * (size_t)d->sunit;
        if (nb > dmaxb) { X.viol = V_NOSPC; return; }
        X.has_res = 1; X.resb = nb; memcpy(X.res, sp, nb); X.wr_lo = 0; X.wr_hi = nb / ew; X.rd = nb / ew;
        break; }
    case FAM_MEMCCPY: {
        /* copies bytes up to and including the first c within n; like memccpy */
        size_t n = s->slen, i;
        if (n == 0) { X.viol = V_UNSURE; return; }   /* "EOK when n = 0"; what happens to dest is not documented */
        if (n > dmaxb) { X.viol = V_NOSPC; return; }
        for (i = 0; i < n && i < s->sobj; i++) if (sp[i] == (uint8_t)s->val) break;
        size_t cnt = (i < n && i < s->sobj) ? i + 1 : n;
        if (cnt > s->sobj) { X.viol = V_UNSURE; return; }
        if (cnt == n && !(i < n) && n == dmaxb) { X.viol = V_UNSURE; return; }   /* truncation needs room for the NUL it appends: pinned by the test suite */
        X.has_res = 1; X.resb = cnt; memcpy(X.res, sp, cnt); X.wr_lo = 0; X.wr_hi = cnt; X.rd = cnt;
        break; }
    case FAM_FLD: {
        size_t n = s->slen;
        if (n > dmax_el) { X.viol = V_NOSPC; return; }
        X.has_res = 1; X.resb = dmaxb; memcpy(X.res, sp, n); memset(X.res + n, 0, dmaxb - n); X.wr_lo = 0; X.wr_hi = dmax_el; X.rd = n;
        break; }
    case FAM_FLDIN: {
        /* "copies at most slen characters from the string src, stops at the NUL, fills the field with nulls" */
        size_t L = elnlen(sp, sobj_el, 1), k;
        if (s->slen > dmax_el) { X.viol = V_NOSPC; return; }
        k = s->slen < L ? s->slen : L;
        X.has_res = 1; X.resb = dmaxb; memcpy(X.res, sp, k); memset(X.res + k, 0, dmaxb - k); X.wr_lo = 0; X.wr_hi = dmax_el; X.rd = k < L ? k : k + 1;
        if (L == sobj_el && s->slen > sobj_el) { X.viol = V_UNSURE; X.has_res = 0; }
        break; }
    case FAM_FLDOUT: {
        /* copies slen characters (NULs included) and terminates */
        size_t n = s->slen;
        if (n > dmax_el) { X.viol = V_NOSPC; return; }
        if (n >= dmax_el) { X.viol = V_UNSURE; return; }     /* slen == dmax: no room for the terminator; not documented */
        X.has_res = 1; X.resb = dmaxb; memcpy(X.res, sp, n); memset(X.res + n, 0, dmaxb - n); X.wr_lo = 0; X.wr_hi = dmax_el; X.rd = n;
        X.res_is_str = 0;
        break; }
    case FAM_SETN: {
        size_t n = s->slen, i;
        if (d->fl & F_DESTSTR) {    /* strnset_s / wcsnset_s: set at most n characters of the string */
            size_t dl = elnlen(dp, dmax_el, ew);
            if (n > dmax_el) { X.viol = V_NOSPC; return; }
            if (dl == dmax_el) { X.viol = V_DUNT | V_UNSURE; return; }   /* @pre only, no documented code */
            size_t k = n < dl ? n : dl;
            X.has_res = 1; X.res_is_str = 1; X.reslen = dl; X.resb = (dl + 1) * ew; memcpy(X.res, dp, X.resb);
            for (i = 0; i < k; i++) setel(X.res, i, ew, (uint32_t)s->val);
            X.wr_lo = 0; X.wr_hi = k;
            if (s->val == 0 || (ew == 1 && (s->val & 0xff) == 0)) { X.viol = V_UNSURE; X.has_res = 0; }
        } else {
            size_t nb = n * (size_t)d->sunit;
            if (nb > dmaxb) { X.viol = V_NOSPC; return; }
            X.has_res = 1; X.resb = nb; for (i = 0; i < n; i++) setel(X.res, i, ew, (uint32_t)s->val);
            X.wr_lo = 0; X.wr_hi = n;
        }
        break; }
    case FAM_SET: {
        size_t dl = elnlen(dp, dmax_el, ew), i;
        if (dl == dmax_el) { X.viol = V_DUNT | V_UNSURE; return; }   /* @pre only, no documented code */
        X.has_res = 1; X.res_is_str = 1; X.reslen = dl; X.resb = (dl + 1) * ew;
        for (i = 0; i < dl; i++) setel(X.res, i, ew, (uint32_t)s->val);
        setel(X.res, dl, ew, 0);
        if (s->val == 0 || (ew == 1 && (s->val & 0xff) == 0)) { X.viol = V_UNSURE; X.has_res = 0; }
        X.wr_lo = 0; X.wr_hi = dl;
        break; }
    case FAM_ZERO:
        X.has_res = 1; X.resb = dmaxb; memset(X.res, 0, dmaxb); X.wr_lo = 0; X.wr_hi = dmax_el;
        if (d->fl & F_STR) {   /* strzero_s: "nulls ... until the terminating NUL"; the slack behind it is C08's business */
            size_t dl = elnlen(dp, dmax_el, ew);
            X.res_is_str = 1; X.reslen = 0; X.resb = dl < dmax_el ? dl + 1 : dmax_el;
        }
        break;
    case FAM_INPLACE: {
        size_t dl = elnlen(dp, dmax_el, ew), i;
        const char *nm = d->name;
        if (!strcmp(nm, "strnterminate_s")) {
            size_t r = dl < dmax_el ? dl : dmax_el - 1;
            X.has_res = 1; X.res_is_str = 1; X.reslen = r; X.resb = (r + 1); memcpy(X.res, dp, r); X.res[r] = 0;
            break;
        }
        if (dl == dmax_el) {
            /* only strljustify_s / strremovews_s document ESUNTERM; the case converters just stop at dmax */
            X.viol = (!strcmp(nm, "strljustify_s") || !strcmp(nm, "strremovews_s")) ? V_DUNT : V_UNSURE;
            if (dmax_el <= 1) X.viol |= V_UNSURE;    /* "a dmax of one allows only for a null": documented corner case */
            return;
        }
        X.has_res = 1; X.res_is_str = 1; X.resb = (dl + 1) * ew; memcpy(X.res, dp, X.resb); X.reslen = dl;
        if (!strcmp(nm, "strtolowercase_s")) { for (i = 0; i < dl; i++) if (X.res[i] >= 'A' && X.res[i] <= 'Z') X.res[i] += 32; }
        else if (!strcmp(nm, "strtouppercase_s")) { for (i = 0; i < dl; i++) if (X.res[i] >= 'a' && X.res[i] <= 'z') X.res[i] -= 32; }
        else if (!strcmp(nm, "wcslwr_s")) { for (i = 0; i < dl; i++) setel(X.res, i, 4, towlower(getel(dp, i, 4))); if (dl == 0) X.viol = V_UNSURE; }
        else if (!strcmp(nm, "wcsupr_s")) { for (i = 0; i < dl; i++) setel(X.res, i, 4, towupper(getel(dp, i, 4))); if (dl == 0) X.viol = V_UNSURE; }
        else if (!strcmp(nm, "strljustify_s")) {
            size_t a = 0; while (a < dl && (dp[a] == ' ' || dp[a] == '\t')) a++;
            if (dl == 0) { X.viol = V_UNSURE; X.has_res = 0; break; }
            memmove(X.res, dp + a, dl - a); X.res[dl - a] = 0; X.reslen = dl - a; X.resb = dl - a + 1;
        } else if (!strcmp(nm, "strremovews_s")) {
            size_t a = 0, b = dl;
            if (dl == 0) { X.viol = V_UNSURE; X.has_res = 0; break; }
            while (a < dl && (dp[a] == ' ' || dp[a] == '\t')) a++;
            while (b > a && (dp[b - 1] == ' ' || dp[b - 1] == '\t')) b--;
            memmove(X.res, dp + a, b - a); X.res[b - a] = 0; X.reslen = b - a; X.resb = b - a + 1;
        }
        break; }
    }
}

/* ------------------------------------------------------------------ witness text */
static char g_wit[2048];
static void witness(const desc_t *d, const scn_t *s, const char *obs) {
    g_wit[0] = 0;
    sb_add(g_wit, sizeof g_wit, "{\"harness\":\"engine\",\"cfg\":\"%s\",\"fn\":\"%s\",\"mode\":%d,\"idx\":%ld,\"seed\":%llu,\"tier\":%d,"
           "\"dmax\":%zu,\"dobj\":%zu,\"dnull\":%d,\"dkind\":%d,\"dlen\":%zu,\"dplace\":%d,\"snull\":%d,\"slen\":%zu,\"sstr\":%zu,"
           "\"sterm\":%d,\"sobj\":%zu,\"splace\":%d,\"order\":%d,\"ovl\":%d,\"delta\":%ld,\"bos\":%d,\"untruth\":%d,\"val\":%ld,\"alpha\":%d,"
           "\"ret\":\"%s\",\"hcount\":%d,\"hcode\":\"%s\",\"hmsg\":",
           g_cfg, d->name, g_mode, s->idx, (unsigned long long)g_seed, g_tier, s->dmax, s->dobj, s->dnull, s->dkind, s->dlen, s->dplace,
           s->snull, s->slen, s->sstr, s->sterm, s->sobj, s->splace, s->order, s->ovl, s->delta, s->bos, s->untruth, s->val, s->alpha,
           errname(C.ret), g_h.count, g_h.count ? errname(g_h.code[0]) : "-");
    { char esc[200]; size_t j = 0; const char *m = g_h.count ? g_h.msg[0] : "";
      esc[j++] = '"'; for (; *m && j < sizeof esc - 3; m++) if (*m != '"' && *m != '\\' && (unsigned char)*m >= 0x20 && (unsigned char)*m < 0x7f) esc[j++] = *m;
      esc[j++] = '"'; esc[j] = 0; sb_add(g_wit, sizeof g_wit, "%s", esc); }
    sb_add(g_wit, sizeof g_wit, ",\"obs\":\"%s\",\"replay\":\"engine --cfg %s --mode %d --fn %s --idx %ld --seed %llu --tier %s\"}",
           obs, g_cfg, g_mode, d->name, s->idx, (unsigned long long)g_seed, g_tier ? "thorough" : "quick");
}

/* ------------------------------------------------------------------ counters */
enum { K_CALLS, K_FAULT_W, K_FAULT_R, K_FAIL, K_OK, K_C03, K_C04, K_C05, K_C06, K_C08, K_C01, K_C02, K_C07, K_DEATH, K_UNSURE, K_NUM };
static const char *KN[] = { "calls", "write_faults", "read_faults", "failing_calls", "successful_calls", "c03_decided", "c04_decided",
                            "c05_decided", "c06_decided", "c08_decided", "c01_decided", "c02_decided", "c07_decided", "worker_deaths", "classifier_unsure" };

/* ------------------------------------------------------------------ fault attribution */
static void fault_where(const desc_t *d, const scn_t *s, char *out, size_t cap) {
    uintptr_t a = g_fence.addr;
    struct { const char *role; const uint8_t *p; size_t n; } r[3] = {
        {"dest", C.dest, s->dmax * (size_t)d->dunit}, {"src", C.src, 0}, {"out", C.out, sizeof(errno_t)} };
    /* declared readable extent of the source */
    if (C.src) {
        if (M.sobj) r[1].n = M.sobjb; else r[1].n = 0;
    }
    if (M.dobj && s->untruth == 0 && r[0].n > M.dobjb) r[0].n = M.dobjb;
    long best = -1; long bestd = 0; int side = 0;
    for (int i = 0; i < 3; i++) {
        if (!r[i].p) continue;
        long dpast = (long)(a - ((uintptr_t)r[i].p + r[i].n));   /* >=0: past the end */
        long dbef = (long)((uintptr_t)r[i].p - a);               /* >0: before the start */
        if (dpast >= 0 && dpast < 2 * PAGE && (best < 0 || dpast < bestd)) { best = i; bestd = dpast; side = 0; }
        if (dbef > 0 && dbef < 2 * PAGE && (best < 0 || dbef < bestd)) { best = i; bestd = dbef; side = 1; }
    }
    if (!in_arena((void *)a)) { snprintf(out, cap, "wild(%s)", a < 65536 ? "near-null" : "elsewhere"); return; }
    if (s->untruth == 1 && C.dest && (a & ~(uintptr_t)(PAGE - 1)) == ((uintptr_t)C.dest & ~(uintptr_t)(PAGE - 1))) { snprintf(out, cap, "dest-touched-after-size-violation"); return; }
    if (s->untruth == 2 && C.src && (a & ~(uintptr_t)(PAGE - 1)) == ((uintptr_t)C.src & ~(uintptr_t)(PAGE - 1))) { snprintf(out, cap, "src-touched-after-size-violation"); return; }
    if (best < 0) { snprintf(out, cap, "arena-guard"); return; }
    if (side == 0) snprintf(out, cap, "%s+end+%s", r[best].role, bestd == 0 ? "0" : bestd < 4 ? "1..3" : bestd < 16 ? "4..15" : "16..");
    else snprintf(out, cap, "%s-start-%s", r[best].role, bestd <= 1 ? "1" : bestd < 16 ? "2..15" : "16..");
}

static const char *bosname(int b) { return b == 0 ? "bos=unknown" : b == 1 ? "bos=exact" : "bos=larger"; }
static const char *szcls(size_t dmax) { return dmax <= 0x20 ? "le0x20" : "gt0x20"; }
/* length-argument class of a scenario: part of the C06/C08 keys so that a finding about one way of calling a
   function does not mask a different defect of the same function */
static const char *slcls(const desc_t *d, const scn_t *s) {
    if (!d->sunit) return "n/a";
    if (s->slen == 0) return "slen=0";
    if (d->fl & F_STRSRC) return s->slen <= s->sstr ? "slen<=srclen" : "slen>srclen";
    if (d->fl & F_DESTSTR) return s->slen < s->dlen ? "n<len" : "n>=len";
    return "slen>0";
}

static unsigned long long K[K_NUM];
static unsigned long long K_before[K_NUM];

/* ------------------------------------------------------------------ monitors */
static void monitors(const desc_t *d, const scn_t *s) {
    char key[400], what[600], obs[200], fw[64];
    int ew = d->ew;
    size_t dmaxb = s->dmax * (size_t)d->dunit, dmax_el = dmaxb / ew;
    int success = (C.ret == 0);
    int dest_usable = !s->dnull && s->untruth == 0 && s->dmax > 0 && s->dmax <= d->dlimit && dmaxb <= M.dobjb;
    int truthful = s->untruth == 0 && (s->dnull || dmaxb <= M.dobjb || s->dmax > d->dlimit);
    const uint8_t *dp = M.dobj;

    K[K_CALLS]++;
    if (success) K[K_OK]++; else K[K_FAIL]++;
    if (X.viol & V_UNSURE) K[K_UNSURE]++;

    /* ---- readable-guard scenarios: the only question is whether anything is stored behind dest (the zeros behind it make an unterminated
       dest look terminated one element late, so every other oracle is off) */
    if (s->rog == 1) {
        if (g_fence.faulted && g_fence.is_write) {
            K[K_FAULT_W]++;
            fault_where(d, s, fw, sizeof fw);
            snprintf(obs, sizeof obs, "WRITE fault at %s (pc %#lx); dest fills its dmax elements without a terminator and is followed by readable zeros", fw, (unsigned long)g_fence.pc);
            if (want("C01")) {
                snprintf(key, sizeof key, "%s|W-fault|%s|%s|%s|zeros-behind-unterminated-dest", d->name, fw, bosname(s->bos), g_cfg);
                snprintf(what, sizeof what, "%s stores outside the declared destination: %s", d->name, obs);
                witness(d, s, obs); report("C01", key, what, g_wit);
            }
        } else K[K_C01]++;
        return;
    }
    /* ---- fence events: C01 (write) / C02 (read); after a size violation with unmapped operands: C05 R6 */
    if (g_fence.faulted) {
        fault_where(d, s, fw, sizeof fw);
        snprintf(obs, sizeof obs, "%s fault at %s (pc %#lx)", g_fence.is_write ? "WRITE" : "READ", fw, (unsigned long)g_fence.pc);
        if (g_fence.is_write) K[K_FAULT_W]++; else K[K_FAULT_R]++;
        int r6 = 0;
        if (s->untruth == 1 && C.dest && g_fence.addr >= ((uintptr_t)C.dest & ~(uintptr_t)(PAGE - 1)) && g_fence.addr < ((uintptr_t)C.dest & ~(uintptr_t)(PAGE - 1)) + PAGE) r6 = 1;
        if (s->untruth == 2 && C.src && g_fence.addr >= ((uintptr_t)C.src & ~(uintptr_t)(PAGE - 1)) && g_fence.addr < ((uintptr_t)C.src & ~(uintptr_t)(PAGE - 1)) + PAGE) r6 = 1;
        if (r6) {
            if (want("C05")) {
                snprintf(key, sizeof key, "%s|R6-touched-before-reject|%s|%s|%s", d->name, g_fence.is_write ? "W" : "R", fw, s->untruth == 1 ? "dmax>limit" : "slen>limit");
                snprintf(what, sizeof what, "%s: %s above the RSIZE limit but the operand was accessed (%s) before the call was rejected", d->name, s->untruth == 1 ? "dmax" : "slen", obs);
                witness(d, s, obs); report("C05", key, what, g_wit);
            }
        } else if (g_fence.is_write) {
            if (want("C01")) {
                snprintf(key, sizeof key, "%s|W-fault|%s|%s|%s", d->name, fw, bosname(s->bos), g_cfg);
                snprintf(what, sizeof what, "%s stores outside the declared destination: %s", d->name, obs);
                witness(d, s, obs); report("C01", key, what, g_wit);
            }
        } else {
            if (want("C02")) {
                snprintf(key, sizeof key, "%s|R-fault|%s|%s", d->name, fw, bosname(s->bos));
                snprintf(what, sizeof what, "%s reads outside the declared extents: %s", d->name, obs);
                witness(d, s, obs); report("C02", key, what, g_wit);
            }
        }
        return;   /* state after a fault is not a normal return: no further oracle */
    }
    K[K_C02]++;

    /* ---- C01: stray writes inside mapped memory */
    if (truthful) {
        extent_t ext[3]; int ne = 0;
        if (M.dobj) { ext[ne].p = M.dobj; ext[ne].n = dmaxb < M.dobjb ? dmaxb : M.dobjb; ext[ne].role = "dest"; ne++; }
        ext[ne].p = C.out; ext[ne].n = sizeof(errno_t); ext[ne].role = "out"; ne++;
        const uint8_t *wh; uint8_t ov, nv;
        K[K_C01]++;
        if (arena_stray_write(ext, ne, &wh, &ov, &nv)) {
            const char *role = "elsewhere"; long off = 0;
            if (M.dobj && wh >= M.dobj + dmaxb && wh < M.dobj + M.dobjb) { role = "dest-object-past-dmax"; off = wh - (M.dobj + dmaxb); }
            else if (M.sobj && wh >= M.sobj && wh < M.sobj + M.sobjb) { role = "src"; off = wh - M.sobj; }
            else if (M.dobj && wh < M.dobj && wh >= M.dobj - 64) { role = "before-dest"; off = M.dobj - wh; }
            else if (M.dobj && wh >= M.dobj + M.dobjb && wh < M.dobj + M.dobjb + 64) { role = "past-dest-object"; off = wh - (M.dobj + M.dobjb); }
            /* a source lying inside dest[0..dmax) is inside the permitted extent: not reached here */
            snprintf(obs, sizeof obs, "byte at %s+%ld changed %02x->%02x", role, off, ov, nv);
            if (want("C01")) {
                snprintf(key, sizeof key, "%s|stray-write|%s|%s|%s|%s", d->name, role, success ? "on-success" : "on-failure", bosname(s->bos), g_cfg);
                snprintf(what, sizeof what, "%s changes memory outside dest[0..dmax): %s", d->name, obs);
                witness(d, s, obs); report("C01", key, what, g_wit);
            }
            if (!strcmp(role, "src") && !success && want("C04")) {
                snprintf(key, sizeof key, "%s|src-modified-by-failed-call|%s", d->name, errname(C.ret));
                snprintf(what, sizeof what, "%s failed with %s but modified its (non-overlapping) source: %s", d->name, errname(C.ret), obs);
                witness(d, s, obs); report("C04", key, what, g_wit);
            }
        }
    }

    /* ---- C05: reporting protocol */
    if (!(d->fam == FAM_INPLACE && !strcmp(d->name, "strnterminate_s"))) {
        K[K_C05]++;
        int hc = g_h.count;
        const char *rule = NULL; char det[160] = "";
        if (hc > 1) { rule = "R1-handler-invoked-more-than-once"; snprintf(det, sizeof det, "n=%d,codes=%s,%s", hc, errname(g_h.code[0]), errname(g_h.code[1])); }
        else if (hc == 1 && g_h.code[0] != C.ret) { rule = "R2-handler-code-differs-from-returned-code"; snprintf(det, sizeof det, "handler=%s,returned=%s", errname(g_h.code[0]), errname(C.ret)); }
        else if (hc == 0 && !success) { rule = "R3-failure-returned-without-handler"; snprintf(det, sizeof det, "returned=%s", errname(C.ret)); }
        else if (!(X.viol & V_UNSURE)) {
            if (X.viol == 0 && (hc || !success)) { rule = "R4-valid-call-reported-as-violation"; snprintf(det, sizeof det, "returned=%s,handler=%d", errname(C.ret), hc); }
            else if (X.viol != 0 && success) { rule = "R5-violation-not-reported"; snprintf(det, sizeof det, "violated=%#x", X.viol); }
        }
        if (rule && want("C05")) {
            snprintf(key, sizeof key, "%s|%s|%s|%s", d->name, rule, det, bosname(s->bos));
            snprintf(obs, sizeof obs, "ret=%s handler_calls=%d code0=%s msg0=%.60s classifier=%#x", errname(C.ret), hc, hc ? errname(g_h.code[0]) : "-", hc ? g_h.msg[0] : "", X.viol);
            snprintf(what, sizeof what, "%s: %s (%s)", d->name, rule, obs);
            witness(d, s, obs); report("C05", key, what, g_wit);
        }
        /* the handler of the right kind: mem*_s / wmem*_s report to the memory handler, everything else to the string handler (C13: a thread's
           or the process' handler "of the same kind") */
        if (hc >= 1 && (want("C05") || want("C13"))) {
            int expect_kind = (!strncmp(d->name, "mem", 3) || !strncmp(d->name, "wmem", 4)) ? 'm' : 's';
            for (int i = 0; i < hc && i < HLOG; i++) if (g_h.kind[i] != expect_kind) {
                snprintf(key, sizeof key, "%s|R8-handler-of-the-other-kind-invoked|%s|%s", d->name, errname(g_h.code[i]), bosname(s->bos));
                snprintf(obs, sizeof obs, "ret=%s, the %s handler was invoked with %s (%.60s)", errname(C.ret), g_h.kind[i] == 'm' ? "memory" : "string", errname(g_h.code[i]), g_h.msg[i]);
                snprintf(what, sizeof what, "%s reports a violation to the constraint handler of the other kind: %s", d->name, obs);
                witness(d, s, obs); if (want("C05")) report("C05", key, what, g_wit); if (want("C13")) report("C13", key, what, g_wit);
                break;
            }
        }
        if (s->untruth && want("C05")) {
            /* no fault: check nothing was written either */
            const uint8_t *wh; uint8_t ov, nv; extent_t e0[1]; e0[0].p = C.out; e0[0].n = sizeof(errno_t);
            extent_t e1[2]; int n1 = 1; e1[0] = e0[0];
            if (s->untruth == 2 && M.dobj) { e1[1].p = M.dobj; e1[1].n = M.dobjb; n1 = 2; }   /* clearing a valid dest is the documented reaction */
            if (arena_stray_write(e1, n1, &wh, &ov, &nv)) {
                snprintf(key, sizeof key, "%s|R6-memory-changed-after-size-violation|%s", d->name, s->untruth == 1 ? "dmax>limit" : "slen>limit");
                snprintf(what, sizeof what, "%s: size above the RSIZE limit, yet memory changed", d->name);
                witness(d, s, "changed"); report("C05", key, what, g_wit);
            }
        }
    }
    if (s->untruth) return;

    /* ---- C03: string producers never leave dest unterminated */
    if ((d->fl & F_STR) && dest_usable) {
        int noop = (d->fl & F_ZLENOK) && d->sunit && s->slen == 0;   /* documented no-op leaving dest untouched */
        if (!noop) {
            K[K_C03]++;
            if (elnlen(dp, dmax_el, ew) == dmax_el && want("C03")) {
                snprintf(key, sizeof key, "%s|unterminated-dest|ret=%s|%s|%s|%s", d->name, errname(C.ret), szcls(s->dmax), bosname(s->bos), g_cfg);
                snprintf(obs, sizeof obs, "no NUL in dest[0..%zu) after return %s", dmax_el, errname(C.ret));
                snprintf(what, sizeof what, "%s leaves dest without a terminator: %s", d->name, obs);
                witness(d, s, obs); report("C03", key, what, g_wit);
            }
        }
    }

    /* ---- C04: failed call leaves no partial result */
    if (!success && (d->fl & F_C04) && dest_usable) {
        K[K_C04]++;
        const uint8_t *bd = snap_of(dp);
        const char *rule = NULL; size_t at = 0;
        if (getel(dp, 0, ew) != 0) rule = "dest[0]-not-zero";
        if (!rule) for (size_t i = 0; i < dmax_el; i++) { uint32_t a = getel(dp, i, ew), b = getel(bd, i, ew); if (a != b && a != 0) { rule = "partial-result-visible"; at = i; break; } }
        if (!rule && !g_noslack) {
            int cls = (C.ret == ESNOSPC || C.ret == ESOVRLP || C.ret == ESUNTERM || (C.ret == ESNULLP && s->snull));
            /* ESNOSPC from the entry check "slen > dmax" of the memory/field functions is met before copying began;
               the statement's clause covers failures met after copying began or a null source */
            if (cls && C.ret == ESNOSPC && (d->fam == FAM_MEMCPY || d->fam == FAM_MEMMOVE || d->fam == FAM_MEMCCPY || d->fam == FAM_FLD || d->fam == FAM_FLDIN || d->fam == FAM_FLDOUT)) cls = 0;
            if (cls && C.ret == ESUNTERM && !(d->fam == FAM_CAT || d->fam == FAM_NCAT)) cls = 0;   /* "dest turns out unterminated" */
            if (cls) for (size_t i = 0; i < dmax_el; i++) if (getel(dp, i, ew)) { rule = "not-all-zero-after-late-failure"; at = i; break; }
        }
        if (rule && want("C04")) {
            snprintf(key, sizeof key, "%s|%s|ret=%s|%s|%s|%s", d->name, rule, errname(C.ret), szcls(s->dmax), bosname(s->bos), g_cfg);
            snprintf(obs, sizeof obs, "ret=%s dest[%zu]=%#x (before %#x) dmax=%zu", errname(C.ret), at, getel(dp, at, ew), getel(bd, at, ew), dmax_el);
            snprintf(what, sizeof what, "%s fails but %s: %s", d->name, rule, obs);
            witness(d, s, obs); report("C04", key, what, g_wit);
        }
    }

    /* ---- C06: success means exact result; C08: slack */
    if (success && !(X.viol & V_UNSURE)) {
        if (X.viol == 0 && X.has_res && dest_usable) {
            K[K_C06]++;
            const char *rule = NULL; size_t at = 0;
            if (X.resb > dmaxb) rule = "model-error";
            else if (memcmp(dp, X.res, X.resb)) { rule = "dest-differs-from-reference"; for (at = 0; at < X.resb; at++) if (dp[at] != X.res[at]) break; }
            else if (X.has_retp && C.retp != X.retp) rule = "returned-pointer-wrong";
            else if (d->fam == FAM_MEMCPY || d->fam == FAM_MEMMOVE || (d->fam == FAM_SETN && !(d->fl & F_DESTSTR))) {
                /* bytes of dest beyond the copied/filled ones keep their value (memccpy_s is excluded: it documents
                   clearing the rest of the n bytes and stores a NUL behind a truncated copy) */
                const uint8_t *bd = snap_of(dp);
                size_t lim = dmaxb;
                for (size_t i = X.resb; i < lim; i++) if (dp[i] != bd[i]) { rule = "bytes-beyond-result-changed"; at = i; break; }
            }
            else if (d->fam == FAM_MEMCCPY && X.resb && X.resb < C.slen && dp[X.resb - 1] == (uint8_t)C.val) {
                /* the stop character was found before n: "copies ... stopping when the character c is found"; with null slack
                   "the rest (max. n bytes, not dmax) is cleared", without it nothing behind the stop character is stored */
                const uint8_t *bd = snap_of(dp);
                for (size_t i = X.resb; i < C.slen && i < dmaxb; i++) if (g_noslack ? dp[i] != bd[i] : dp[i] != 0) { rule = "copied-on-behind-the-stop-character"; at = i; break; }
            }
            if (!strcmp(d->name, "strnterminate_s") && !rule && C.n != X.reslen) rule = "returned-length-wrong";
            if (rule && want("C06")) {
                snprintf(key, sizeof key, "%s|%s|%s|%s|%s|%s", d->name, rule, slcls(d, s), szcls(s->dmax), bosname(s->bos), g_cfg);
                snprintf(obs, sizeof obs, "first difference at byte %zu: got %02x want %02x; resb=%zu retp-dest=%ld want %ld", at, at < dmaxb ? dp[at] : 0, at < X.resb ? X.res[at] : 0, X.resb,
                         C.retp ? (long)((uint8_t *)C.retp - (uint8_t *)C.dest) : -1L, X.retp ? (long)((uint8_t *)X.retp - (uint8_t *)C.dest) : -1L);
                snprintf(what, sizeof what, "%s returns success but %s: %s", d->name, rule, obs);
                witness(d, s, obs); report("C06", key, what, g_wit);
            }
        } else if ((X.viol & V_NOSPC) && dest_usable) {
            K[K_C06]++;
            if (want("C06")) {
                snprintf(key, sizeof key, "%s|success-although-result-does-not-fit|%s|%s", d->name, bosname(s->bos), g_cfg);
                snprintf(obs, sizeof obs, "result needs more than dmax=%zu elements", dmax_el);
                snprintf(what, sizeof what, "%s returns success although the complete result does not fit: %s", d->name, obs);
                witness(d, s, obs); report("C06", key, what, g_wit);
            }
        }
        if ((d->fl & F_SLACK) && X.viol == 0 && X.has_res && dest_usable && (X.res_is_str || d->fam == FAM_FLDOUT)) {
            int noop = (d->fl & F_ZLENOK) && d->sunit && s->slen == 0;
            if (!noop) {
                K[K_C08]++;
                size_t len = X.res_is_str ? X.reslen : s->slen, i;
                const char *rule = NULL;
                if (!g_noslack) { for (i = len; i < dmax_el; i++) if (getel(dp, i, ew)) { rule = "stale-data-behind-terminator"; break; } }
                else { if (getel(dp, len, ew)) { rule = "terminator-missing"; i = len; } }
                if (rule && want("C08")) {
                    snprintf(key, sizeof key, "%s|%s|%s|%s|%s|%s", d->name, rule, slcls(d, s), szcls(s->dmax), bosname(s->bos), g_cfg);
                    snprintf(obs, sizeof obs, "result length %zu, dmax %zu, dest[%zu]=%#x", len, dmax_el, i, getel(dp, i, ew));
                    snprintf(what, sizeof what, "%s succeeds but %s: %s", d->name, rule, obs);
                    witness(d, s, obs); report("C08", key, what, g_wit);
                }
            }
        }
    }
}

/* ------------------------------------------------------------------ execution of one scenario */
static void class_sig(const desc_t *d, scn_t *s) {
    snprintf(s->cls, sizeof s->cls, "%s;dm=%s;sl=%s;ss=%s;st=%d;dk=%d;o=%d;b=%d;p=%d%d;n=%d%d;u=%d;ov=%d",
             d->name,
             s->dmax == 0 ? "0" : s->dmax > d->dlimit ? "gtmax" : s->dmax <= 0x20 ? "le20" : "gt20",
             !d->sunit ? "-" : s->slen == 0 ? "0" : s->slen > d->slimit ? "gtmax" : s->slen * d->sunit < s->dmax * d->dunit ? "lt" : s->slen * d->sunit == s->dmax * d->dunit ? "eq" : "gt",
             s->sstr + 1 < s->dmax ? "fits" : s->sstr + 1 == s->dmax ? "exact" : "long",
             s->sterm, s->dkind, s->order, s->bos, s->dplace, s->splace, s->dnull, s->snull, s->untruth, s->ovl);
}

static unsigned long long g_ret_hist[32];
static int g_samples_emitted;

static void run_one(const desc_t *d, scn_t *s) {
    materialize(d, s);
    classify_and_model(d, s);
    arena_snapshot();
    probes_reset();
    C.ret = -999; C.retp = NULL;
    if (s->rog == 1) guard_readable(s->order ? 1 : 0, 1);
    if (s->rog == 2) guard_readable(s->order ? 0 : 1, 1);
    g_shm->in_call = 1; g_cur_fn = d->name;
    FENCED(d->call(&C));
    g_shm->in_call = 0;
    if (s->rog == 1) guard_readable(s->order ? 1 : 0, 0);
    if (s->rog == 2) guard_readable(s->order ? 0 : 1, 0);
    memcpy(K_before, K, sizeof K);
    monitors(d, s);
    class_sig(d, s);
    int decided;
    {   /* did the selected property's oracle have something to decide on this case? */
        static const struct { const char *p; int k; } pk[] = { {"C01", K_C01}, {"C02", K_C02}, {"C03", K_C03}, {"C04", K_C04}, {"C05", K_C05}, {"C06", K_C06}, {"C08", K_C08}, {"C07", K_C07} };
        decided = !strcmp(g_prop, "ALL");
        for (unsigned i = 0; i < sizeof pk / sizeof pk[0]; i++) if (!strcmp(g_prop, pk[i].p) && K[pk[i].k] != K_before[pk[i].k]) decided = 1;
        if (g_fence.faulted && (want("C01") || want("C02"))) decided = 1;
    }
    if (decided) {   /* distinct non-trivial: (class signature, outcome) */
        char b[220]; snprintf(b, sizeof b, "%s>%s/%d/%d", s->cls, g_fence.faulted ? "fault" : errname(C.ret), g_h.count, X.viol ? 1 : 0);
        distinct_add(hash_str(b));
    }
    if (g_verbose) {
        witness(d, s, "verbose"); printf("%s\n", g_wit);
    }
    if (g_samples_emitted < 6 && (s->idx % 977) == (long)(g_seed % 977)) {
        witness(d, s, "sample"); emit_sample(g_wit); g_samples_emitted++;
    }
}

/* ------------------------------------------------------------------ generators */
static const size_t DM_T[] = {1, 2, 3, 4, 5, 7, 8, 9, 15, 16, 17, 31, 32, 33, 34, 40, 63, 64, 65, 70};
static const size_t DM_Q[] = {1, 2, 3, 5, 8, 16, 17, 31, 32, 33, 34, 65};
#define NEL(a) ((int)(sizeof a / sizeof a[0]))

typedef void (*visit_fn)(const desc_t *, scn_t *);
static long g_idx;
static int select_case(long idx) {
    if (g_only_idx >= 0) return idx == g_only_idx;
    return (idx % g_nw) == g_wid;
}

/* relation sets */
static int rel_vals(size_t base, size_t *out) {   /* lengths relative to base (dmax): 0,1,base-2,base-1,base,base+1,base+7 */
    size_t c[7] = {0, 1, base >= 2 ? base - 2 : 0, base >= 1 ? base - 1 : 0, base, base + 1, base + 7};
    int n = 0;
    for (int i = 0; i < 7; i++) { int dup = 0; for (int j = 0; j < n; j++) if (out[j] == c[i]) dup = 1; if (!dup) out[n++] = c[i]; }
    return n;
}

static void base_scn(const desc_t *d, scn_t *s, int fi) {
    memset(s, 0, sizeof *s); s->fi = fi; s->sterm = 1; s->val = 'x'; s->alpha = 0;
    (void)d;
}

/* sizes the object for the source operand truthfully and exactly */
static void size_src(const desc_t *d, scn_t *s) {
    int ew = d->ew;
    switch (d->fam) {
    case FAM_CPY: case FAM_CAT:
        if (!s->sterm && d->fam == FAM_CPY && (d->fl & F_SRCBOS) && s->bos && s->sstr) { s->sobj = s->sstr * ew; break; }   /* unterminated, size known to the library */
        s->sterm = 1; s->sobj = (s->sstr + 1) * ew; break;
    case FAM_NCPY: case FAM_NCAT: case FAM_FLDIN:
        if (s->sterm) s->sobj = (s->sstr + 1) * ew;
        else { /* unterminated: object has exactly max(slen, 1) elements, all non-zero */
            size_t n = s->slen ? s->slen : 1; if (n > 2000) n = 2000; s->sobj = n * ew; s->sstr = n; }
        break;
    case FAM_MEMCPY: case FAM_MEMMOVE: case FAM_FLD: case FAM_FLDOUT:
        s->sterm = 0; { size_t n = s->slen * (size_t)d->sunit; if (n == 0) n = ew; if (n > SLOT_BYTES) n = SLOT_BYTES; s->sobj = n; } break;
    case FAM_MEMCCPY:   /* n = position of the stop char (if sterm) */
        { size_t nb = s->sterm ? s->n + 1 : s->slen; if (nb == 0) nb = 1; if (nb > SLOT_BYTES) nb = SLOT_BYTES; s->sobj = nb; } break;
    default: s->sobj = 0;
    }
}

static void emit_case(const desc_t *d, scn_t *s, visit_fn visit) {
    long idx = g_idx++;
    if (!select_case(idx)) return;
    s->idx = idx;
    if (s->dobj > SLOT_BYTES || s->sobj > SLOT_BYTES) return;
    {   /* truthfulness of the source declaration: a length argument larger than the source object is only
           generated when the source is a string terminated inside its object, or when the library is told the
           object size (documented EOVERFLOW/ESLEMAX rejection) */
        int has_src = d->fam <= FAM_FLDOUT;
        if (has_src && d->sunit && !s->snull && s->untruth == 0 && s->slen * (size_t)d->sunit > s->sobj) {
            int str_ok = (d->fl & F_STRSRC) && s->sterm && (s->sstr + 1) * d->ew <= s->sobj;
            int bos_ok = s->bos && (d->fl & F_SRCBOS);
            if (d->fam == FAM_MEMCCPY) str_ok = s->sterm && s->n + 1 <= s->sobj;
            if (!str_ok && !bos_ok) return;
        }
    }
    s->cseed = mix64(g_seed * 1000003ull + (uint64_t)idx);
    s->alpha = (int)(s->cseed >> 60) & 3;
    if (d->fam == FAM_INPLACE) s->alpha = 2;
    g_shm->cur = idx;
    visit(d, s);
}

static void gen_main(int fi, visit_fn visit) {
    const desc_t *d = &D[fi];
    const size_t *DM = g_tier ? DM_T : DM_Q; int ndm = g_tier ? NEL(DM_T) : NEL(DM_Q);
    scn_t s; int ew = d->ew;
    int has_src = d->fam <= FAM_FLDOUT, has_slen = d->sunit != 0;
    g_idx = 0;
    /* ---------- part 1: valid-shaped calls over the size lattice ---------- */
    for (int a = 0; a < ndm; a++) {
        size_t dm_el = DM[a];                       /* dest elements */
        size_t dmax = dm_el * ew / d->dunit;        /* in dmax units */
        size_t srel[8]; int nsrel = has_src ? rel_vals(dm_el, srel) : 1;
        for (int b = 0; b < nsrel; b++) {
            size_t lrel[10]; int nl = 1;
            if (has_slen) { nl = rel_vals(dm_el, lrel); if (has_src && d->fam != FAM_MEMCPY && d->fam != FAM_MEMMOVE && d->fam != FAM_FLD && d->fam != FAM_FLDOUT) { lrel[nl++] = srel[b]; lrel[nl++] = srel[b] + 1; if (srel[b]) lrel[nl++] = srel[b] - 1; } }
            if ((d->fam == FAM_MEMCPY || d->fam == FAM_MEMMOVE || d->fam == FAM_FLD || d->fam == FAM_FLDOUT) && b > 0) break;   /* source length = slen */
            for (int c = 0; c < nl; c++) {
                for (int term = 1; term >= 0; term--) {
                    int cpy_srcbos = (d->fam == FAM_CPY && (d->fl & F_SRCBOS));   /* stpcpy_s: "ESUNTERM when src is unterminated" needs a known source size */
                    if (!term && !(has_src && (d->fl & F_STRSRC) && (has_slen || cpy_srcbos))) continue;
                    for (int order = 0; order < 2; order++) {
                        if (!has_src && order) continue;
                        for (int bos = 0; bos < 3; bos++) {
                            int ndk = (d->fl & F_DESTSTR) ? 5 : 2;
                            for (int dk = 0; dk < ndk; dk++) {
                                for (int pl = 0; pl < 3; pl++) {
                                    if (pl && (a % 3 != 0)) continue;     /* begin-flush placements on a third of the sizes */
                                    base_scn(d, &s, fi);
                                    s.dmax = dmax; s.order = order; s.bos = bos;
                                    s.dobj = dm_el * ew + (bos == 2 ? 8 * ew : 0);
                                    if (d->fl & F_DESTSTR) {
                                        /* dest holds a string: lengths 0,1,dmax-2,dmax-1, or unterminated */
                                        size_t dl[5] = {0, 1, dm_el >= 2 ? dm_el - 2 : 0, dm_el - 1, dm_el};
                                        s.dkind = dk == 4 ? 0 : 1 + (dk & 1); s.dlen = dl[dk];
                                        if (dk == 4) s.dkind = 0;
                                    } else { s.dkind = dk ? 1 : 0; s.dlen = dk ? dm_el / 2 : 0; }
                                    s.dplace = pl == 1; s.splace = pl == 2;
                                    if (s.dplace && bos == 2) continue;
                                    s.sstr = has_src ? srel[b] : 0; s.sterm = term;
                                    if (!term && cpy_srcbos && (bos == 0 || s.sstr == 0)) continue;   /* untruthful without a known size */
                                    s.slen = has_slen ? lrel[c] * ew / (d->sunit ? d->sunit : 1) : 0;
                                    if (d->fam == FAM_MEMCCPY) { s.n = srel[b]; s.sterm = term; s.val = 0x41 + (int)((a + b + c) % 3) * 0x40 - ((a + b) % 2 ? 0x41 : 0); if (s.val == 0x41 - 0x41) s.val = 0; }
                                    if (d->fam == FAM_SETN || d->fam == FAM_SET) { static const long vv[] = {'x', 0xff, 0x100 + 'y', 0, 0x5a5a5a}; s.val = vv[(a + b + c + dk) % 5]; }
                                    size_src(d, &s);
                                    emit_case(d, &s, visit);
                                    if (!term && cpy_srcbos && pl == 0 && bos) { s.rog = 2; emit_case(d, &s, visit); s.rog = 0; }   /* unterminated source of known size with a readable NUL right behind it: still to be reported */
                                    if ((d->fl & F_DESTSTR) && dk == 4 && pl == 0 && bos < 2 && !s.ovl) { s.rog = 1; emit_case(d, &s, visit); s.dkind = 1; s.dlen = dm_el; for (int al = 0; al < 4; al++) { s.alpha = al; emit_case(d, &s, visit); } s.alpha = 0; s.dkind = 0; s.rog = 0; }
                                }
                            }
                        }
                    }
                }
            }
        }
    }
    /* ---------- part 2: constraint combinations ---------- */
    for (int dnull = 0; dnull < 2; dnull++)
    for (int dm = 0; dm < 4; dm++)            /* 0: zero, 1: valid(8), 2: limit, 3: limit+1 */
    for (int snull = 0; snull < 2; snull++)
    for (int sl = 0; sl < 5; sl++)            /* 0: zero 1: valid(3) 2: limit+1 3: > srcbos / > dmax 4: > srcbos but <= dmax */
    for (int bos = 0; bos < 3; bos++) {       /* 2: the known object is larger than dmax; what lies behind dmax stays the caller's */
        if (!has_src && snull) continue;
        if (bos == 2 && (dm != 1 || dnull)) continue;
        if (!has_slen && sl != 1) continue;
        base_scn(d, &s, fi);
        s.dnull = dnull; s.snull = snull; s.bos = bos;
        size_t dm_el = 8;
        s.dmax = dm == 0 ? 0 : dm == 1 ? dm_el * ew / d->dunit : dm == 2 ? d->dlimit : d->dlimit + 1;
        if (dm == 2 && d->dlimit * (size_t)d->dunit > SLOT_BYTES) continue;   /* memory limits are sampled elsewhere */
        if (dm == 2) dm_el = d->dlimit * d->dunit / ew;
        s.dobj = dm_el * ew + (bos == 2 ? 8 * ew : 0);
        if (dm == 3) { if (bos) { s.dobj = 8 * ew; } else s.untruth = (dnull || (has_slen && sl == 0)) ? 0 : 1; }
        if (dm == 3 && !bos && !dnull && has_slen && sl == 0) continue;   /* would need a real object of limit+1 elements */
        s.dkind = (d->fl & F_DESTSTR) ? 1 : 0; s.dlen = 2;
        s.sstr = 3; s.sterm = 1;
        s.slen = !has_slen ? 0 : sl == 0 ? 0 : sl == 1 ? 3 * ew / d->sunit : sl == 2 ? d->slimit + 1 : sl == 3 ? 12 * ew / d->sunit : 6 * ew / d->sunit;
        size_src(d, &s);
        if (sl == 2 && has_src) { if (d->slimit * (size_t)d->sunit > SLOT_BYTES || 1) { s.sobj = 4 * ew; s.sstr = 3; s.sterm = 1; if (!snull && !bos && !s.untruth && !dnull && dm != 0 && dm != 3) s.untruth = 2; } }
        if (sl >= 3 && has_src) { s.sobj = 4 * ew; s.sstr = 3; s.sterm = 1; }   /* slen (12 or 6) > object (4 elements, terminated) */
        emit_case(d, &s, visit);
    }
    /* ---------- part 3: random extras (thorough): larger sizes, all alphabets ---------- */
    int nrand = g_tier ? 3000 : 300;
    for (int r = 0; r < nrand; r++) {
        rng_t g = rng_from(g_seed, (uint64_t)fi, (uint64_t)r);
        base_scn(d, &s, fi);
        size_t dm_el = 1 + rnd_n(&g, rnd_n(&g, 4) == 0 ? 1000 : 90);
        if (dm_el * ew > 4000) dm_el = 4000 / ew;
        s.dmax = dm_el * ew / d->dunit; s.bos = (int)rnd_n(&g, 2); s.order = (int)rnd_n(&g, 2);
        s.dobj = dm_el * ew;
        if (d->fl & F_DESTSTR) { s.dkind = 1 + (int)rnd_n(&g, 2); s.dlen = rnd_n(&g, dm_el + 1); if (s.dlen == dm_el) s.dkind = 0; }
        else { s.dkind = (int)rnd_n(&g, 2); s.dlen = rnd_n(&g, dm_el); }
        s.sstr = rnd_n(&g, dm_el + 3); s.sterm = (has_slen && (d->fl & F_STRSRC)) ? (rnd_n(&g, 4) != 0) : 1;
        if (has_slen) { int k = (int)rnd_n(&g, 4); size_t e = k == 0 ? rnd_n(&g, dm_el + 3) : k == 1 ? s.sstr : k == 2 ? dm_el : s.sstr + 1; s.slen = e * ew / d->sunit; }
        if (d->fam == FAM_MEMCCPY) { s.n = s.sstr; s.val = (long)rnd_n(&g, 256); }
        if (d->fam == FAM_SETN || d->fam == FAM_SET) s.val = (long)rnd_n(&g, 3) ? 1 + (long)rnd_n(&g, 255) : (long)rnd_n(&g, 0x110000);
        size_src(d, &s);
        emit_case(d, &s, visit);
    }
}

static long g_skip_below;

/* ================================================================== overlap mode (C07)
 * Both operands live in slot 0: src = dest + delta elements.  All facts the oracle needs (existing dest
 * string length, source length, elements read / written by a correct execution) are derived from the
 * pre-call memory image, so the zones below are those of the property statement:
 *   A  dest[0..dmax) and the source elements read are disjoint        -> must behave as without overlap
 *   B  elements written and elements read intersect                   -> must fail, dest cleared
 *   Cz objects overlap, written/read sets do not                      -> exact result OR overlap error with dest cleared
 * memmove family: every placement must equal a copy through a temporary. */
typedef struct { size_t dm, L, slen, dl; long delta; int bos; } ovl_t;

static void witness_ovl(const desc_t *d, const ovl_t *o, long idx, const char *obs) {
    g_wit[0] = 0;
    sb_add(g_wit, sizeof g_wit, "{\"harness\":\"engine\",\"cfg\":\"%s\",\"fn\":\"%s\",\"mode\":1,\"idx\":%ld,\"seed\":%llu,\"dmax_el\":%zu,\"srclen\":%zu,\"slen\":%zu,"
           "\"destlen\":%zu,\"delta\":%ld,\"bos\":%d,\"ret\":\"%s\",\"hcount\":%d,\"obs\":\"%s\",\"replay\":\"engine --cfg %s --mode 1 --fn %s --idx %ld --seed %llu --tier %s\"}",
           g_cfg, d->name, idx, (unsigned long long)g_seed, o->dm, o->L, o->slen, o->dl, o->delta, o->bos, errname(C.ret), g_h.count, obs,
           g_cfg, d->name, idx, (unsigned long long)g_seed, g_tier ? "thorough" : "quick");
}

static void run_overlap_case(const desc_t *d, const ovl_t *o, long idx) {
    int ew = d->ew; int strsrc = (d->fl & F_STRSRC) != 0; int has_slen = d->sunit != 0;
    int cat = d->fam == FAM_CAT || d->fam == FAM_NCAT;
    size_t src_obj_el = strsrc ? o->L + 1 : (o->slen ? o->slen : 1);
    if (d->fam == FAM_MEMCCPY) src_obj_el = o->L + 1 > o->slen ? o->L + 1 : o->slen;
    /* place the pair end-flush: the operand that ends last ends at the guard */
    long d_lo = 0, d_hi = (long)o->dm, s_lo = o->delta, s_hi = o->delta + (long)src_obj_el;
    long lo = d_lo < s_lo ? d_lo : s_lo, hi = d_hi > s_hi ? d_hi : s_hi;
    uint8_t *base = slot_end(0) - (size_t)(hi - lo) * ew;       /* element offset `lo` lives at base */
    uint8_t *D = base + (size_t)(d_lo - lo) * ew, *S = base + (size_t)(s_lo - lo) * ew;
    uint64_t cs = mix64(g_seed * 7919 + (uint64_t)idx);
    arena_canary();
    fill_garbage(base, (size_t)(hi - lo) * ew, cs);
    /* dest content */
    if (cat) { for (size_t i = 0; i < o->dl && i < o->dm; i++) setel(D, i, ew, 'A' + (uint32_t)(i % 26)); if (o->dl < o->dm) setel(D, o->dl, ew, 0); }
    /* source content (written last: it wins where the operands overlap) */
    for (size_t i = 0; i < src_obj_el; i++) setel(S, i, ew, 'a' + (uint32_t)((i + (cs & 7)) % 26));
    if (strsrc) setel(S, o->L, ew, 0);
    long stopc = -1;
    if (d->fam == FAM_MEMCCPY) { stopc = 0x7e; if (o->L < src_obj_el) S[o->L] = (uint8_t)stopc; }
    memset(&C, 0, sizeof C);
    C.out = place_end(2, sizeof(errno_t)); *(errno_t *)C.out = 0x5a5a5a5a;
    C.dest = D; C.src = S; C.dmax = o->dm * ew / d->dunit; C.slen = has_slen ? o->slen * ew / d->sunit : 0; C.val = stopc;
    C.destbos = o->bos ? o->dm * ew : BOS_UNKNOWN; C.srcbos = (o->bos && (d->fl & F_SRCBOS)) ? src_obj_el * ew : BOS_UNKNOWN;
    /* ---- facts from the pre-call image */
    size_t dm = o->dm, dl = 0, Ls = 0, k = 0, rd = 0, wlo = 0, whi = 0; int fits = 1, dunterm = 0, srcbosviol = 0;
    static uint8_t img[SLOT_BYTES], want_img[SLOT_BYTES];
    size_t regb = (size_t)(hi - lo) * ew;
    memcpy(img, base, regb);
    const uint8_t *iD = img + (D - base), *iS = img + (S - base);
    if (cat) { dl = elnlen(iD, dm, ew); if (dl == dm) dunterm = 1; }
    if (strsrc) { Ls = elnlen(iS, (size_t)((img + regb) - iS) / ew, ew); }
    if (o->bos && (d->fl & F_SRCBOS) && has_slen && o->slen > src_obj_el) srcbosviol = 1;
    switch (d->fam) {
    case FAM_CPY: case FAM_CAT: k = Ls; rd = Ls + 1; break;
    case FAM_NCPY: case FAM_NCAT: k = o->slen < Ls ? o->slen : Ls; rd = o->slen <= Ls ? o->slen : Ls + 1; break;
    case FAM_MEMCPY: case FAM_MEMMOVE: case FAM_FLD: case FAM_FLDOUT: k = o->slen; rd = o->slen; break;
    case FAM_FLDIN: k = o->slen < Ls ? o->slen : Ls; rd = o->slen <= Ls ? o->slen : Ls + 1; break;
    case FAM_MEMCCPY: { size_t i; for (i = 0; i < o->slen; i++) if (iS[i] == (uint8_t)stopc) break; k = i < o->slen ? i + 1 : o->slen; rd = k; break; }
    default: return;
    }
    int is_str = d->fam <= FAM_NCAT;
    if (is_str) { fits = dl + k < dm; wlo = dl; whi = fits ? dl + k + 1 : dm; }
    /* field copies: the elements written on behalf of the copy are the k copied ones (+ terminator for fldout);
       filling the rest of the field with nulls is slack treatment, as for the string functions */
    else if (d->fam == FAM_FLD || d->fam == FAM_FLDIN) { fits = o->slen <= dm; wlo = 0; whi = fits ? k : dm; }
    else if (d->fam == FAM_FLDOUT) { if (o->slen == dm) return; /* slen == dmax: truncation vs ESNOSPC is not documented */ fits = o->slen < dm; wlo = 0; whi = fits ? k + 1 : dm; }
    else if (d->fam == FAM_MEMCCPY) { fits = o->slen <= dm && !(k == o->slen && k == dm && (k == 0 || iS[k - 1] != (uint8_t)stopc)); wlo = 0; whi = k < dm ? k : dm; if (k == o->slen && k < dm && (k == 0 || iS[k - 1] != (uint8_t)stopc)) whi = k + 1; /* stop character not found: a NUL is stored behind the n bytes */ }
    else { fits = k <= dm; wlo = 0; whi = fits ? k : dm; }
    if (has_slen && o->slen == 0) return;                 /* zero-length requests: no copying, nothing to decide */
    if (dunterm || srcbosviol) return;                     /* other violations dominate: covered by the main mode */
    long r_lo = o->delta, r_hi = o->delta + (long)rd;     /* elements read, relative to dest */
    int obj_disjoint = r_hi <= 0 || r_lo >= (long)dm || rd == 0;
    int wr_rd_meet = !(r_hi <= (long)wlo || r_lo >= (long)whi) && rd > 0 && whi > wlo;
    /* reading the existing dest string while concatenating: the scan of dest[0..dl] is a read of dest, not of the source */
    const char *zone = obj_disjoint ? "A-disjoint" : wr_rd_meet ? "B-written-meets-read" : "C-objects-overlap-only";
    /* expected image for an exact result (copy through a temporary) */
    memcpy(want_img, img, regb);
    uint8_t *wD = want_img + (D - base);
    if (fits) {
        static uint8_t tmp[SLOT_BYTES];
        memcpy(tmp, iS, (k + 1) * ew <= SLOT_BYTES ? (k + 1) * ew : SLOT_BYTES);
        if (is_str) { memcpy(wD + dl * ew, tmp, k * ew); memset(wD + (dl + k) * ew, 0, ew); }
        else if (d->fam == FAM_FLD || d->fam == FAM_FLDIN || d->fam == FAM_FLDOUT) { memcpy(wD, tmp, k * ew); memset(wD + k * ew, 0, (dm - k) * ew); }
        else memcpy(wD, tmp, k * ew);
    }
    size_t cmp_b = is_str ? (dl + k + 1) * ew : (d->fam == FAM_FLD || d->fam == FAM_FLDIN || d->fam == FAM_FLDOUT) ? dm * ew : k * ew;

    arena_snapshot(); probes_reset(); C.ret = -999; C.retp = NULL;
    g_shm->in_call = 1; g_cur_fn = d->name; FENCED(d->call(&C)); g_shm->in_call = 0;
    K[K_CALLS]++; K[K_C07]++;
    char key[300], what[500], obs[220];
    {   char b[200]; snprintf(b, sizeof b, "%s;ovl;%s;dm=%s;fits=%d;bos=%d;%s>%s", d->name, zone, szcls(dm), fits, o->bos, o->delta < 0 ? "src-below" : o->delta == 0 ? "same" : "src-above", g_fence.faulted ? "fault" : errname(C.ret));
        distinct_add(hash_str(b)); }
    if (g_fence.faulted) {
        snprintf(obs, sizeof obs, "%s fault at %#lx (dest=%p src=%p slot end=%p)", g_fence.is_write ? "WRITE" : "READ", (unsigned long)g_fence.addr, (void *)D, (void *)S, (void *)slot_end(0));
        if (want("C07")) { snprintf(key, sizeof key, "%s|ovl-ran-past-operand|%s|%s", d->name, g_fence.is_write ? "W" : "R", zone);
            snprintf(what, sizeof what, "%s with overlapping placement runs past an operand: %s", d->name, obs); witness_ovl(d, o, idx, obs); report("C07", key, what, g_wit); }
        if (g_fence.is_write && want("C01")) { snprintf(key, sizeof key, "%s|ovl-W-fault|%s|%s", d->name, zone, g_cfg); snprintf(what, sizeof what, "%s stores outside the declared destination (overlapping placement): %s", d->name, obs); witness_ovl(d, o, idx, obs); report("C01", key, what, g_wit); }
        if (!g_fence.is_write && want("C02")) { snprintf(key, sizeof key, "%s|ovl-R-fault|%s", d->name, zone); snprintf(what, sizeof what, "%s reads outside the declared extents (overlapping placement): %s", d->name, obs); witness_ovl(d, o, idx, obs); report("C02", key, what, g_wit); }
        return;
    }
    int success = C.ret == 0;
    /* the same observations serve C04 (failed call leaves no partial result) and C08 (slack after success) for placements
       that only exist inside one object: dest above/below src, identical pointers */
    if (!success && (d->fl & F_C04) && want("C04")) {
        const uint8_t *bD = snap_of(D); const char *r4 = NULL; size_t at = 0;
        if (getel(D, 0, ew)) r4 = "dest[0]-not-zero";
        else for (size_t i = 0; i < dm; i++) { uint32_t a = getel(D, i, ew), b = getel(bD, i, ew); if (a != b && a != 0) { r4 = "partial-result-visible"; at = i; break; } }
        if (!r4 && !g_noslack && (C.ret == ESOVRLP || C.ret == ESNOSPC) && is_str) for (size_t i = 0; i < dm; i++) if (getel(D, i, ew)) { r4 = "not-all-zero-after-late-failure"; at = i; break; }
        if (r4 && !(g_noslack && !strcmp(r4, "partial-result-visible"))) {
            snprintf(key, sizeof key, "%s|ovl|%s|ret=%s|%s|%s", d->name, r4, errname(C.ret), o->delta < 0 ? "src-below" : o->delta == 0 ? "same" : "src-above", g_cfg);
            snprintf(obs, sizeof obs, "ret=%s dest[%zu]=%#x dmax=%zu delta=%ld", errname(C.ret), at, getel(D, at, ew), dm, o->delta);
            snprintf(what, sizeof what, "%s fails but %s (overlapping placement): %s", d->name, r4, obs); witness_ovl(d, o, idx, obs); report("C04", key, what, g_wit);
        }
    }
    if (success && (d->fl & F_SLACK) && is_str && fits && !g_noslack && want("C08")) {
        size_t len = dl + k; if (o->delta == 0 && (d->fl & F_SAMEOK)) len = elnlen(iD, dm, ew);
        if (len < dm && memcmp(D, wD, 0) == 0) for (size_t i = len; i < dm; i++) if (getel(D, i, ew)) {
            snprintf(key, sizeof key, "%s|ovl|stale-data-behind-terminator|%s|%s", d->name, o->delta < 0 ? "src-below" : o->delta == 0 ? "same" : "src-above", szcls(dm));
            snprintf(obs, sizeof obs, "result length %zu, dmax %zu, dest[%zu]=%#x, delta=%ld", len, dm, i, getel(D, i, ew), o->delta);
            snprintf(what, sizeof what, "%s succeeds but stale data remains behind the terminator (operands inside one object): %s", d->name, obs); witness_ovl(d, o, idx, obs); report("C08", key, what, g_wit); break; }
    }
    /* K.3.7.1.1 (memcpy_s) and its sized variants: "copying shall not take place between objects that overlap", the objects being
       dest[0..dmax) and src[0..n): an overlap of the objects alone (zone C) is a violation that has to be reported (C05) */
    if ((d->fam == FAM_MEMCPY || d->fam == FAM_MEMCCPY) && !obj_disjoint && !wr_rd_meet && o->delta != 0 && fits && want("C05")) {   /* memccpy_s documents the same: "ESOVRLP when src memory overlaps dst", regions dest[0..dmax) and src[0..n) */
        if (success || g_h.count != 1) {
            snprintf(key, sizeof key, "%s|ovl|R7-overlap-of-objects-not-reported|%s|%s", d->name, o->delta < 0 ? "src-below" : "src-above", o->bos ? "bos=exact" : "bos=unknown");
            snprintf(obs, sizeof obs, "ret=%s handler calls %d; dest[0..%zu) and src[%ld..%ld) overlap, %zu elements copied", errname(C.ret), g_h.count, dm, r_lo, r_hi, k);
            snprintf(what, sizeof what, "%s does not report overlapping objects: %s", d->name, obs); witness_ovl(d, o, idx, obs); report("C05", key, what, g_wit);
        }
    }
    if (!want("C07") && !want("C06")) return;
    int exact = success && memcmp(D, wD, cmp_b) == 0;
    /* "report the overlap error with dest cleared": all dmax elements for ESOVRLP in the default build (C04's late-failure
       clause), first element zero otherwise */
    int cleared = 1; { size_t n = (C.ret == ESOVRLP && !g_noslack) ? dm : 1; for (size_t i = 0; i < n; i++) if (getel(D, i, ew)) { cleared = 0; break; } }
    const char *rule = NULL;
    if (d->fam == FAM_MEMMOVE) {
        if (fits && !exact) rule = success ? "memmove-differs-from-copy-through-temporary" : "memmove-rejected-valid-placement";
    } else if (obj_disjoint) {
        if (C.ret == ESOVRLP) rule = "disjoint-operands-rejected-as-overlapping";
        else if (fits && !success) rule = "disjoint-operands-failed";
        else if (fits && !exact) rule = "disjoint-operands-wrong-result";
        else if (!fits && success) rule = "disjoint-operands-success-although-no-space";
    } else if (o->delta == 0 && (d->fl & F_SAMEOK)) {
        /* identical pointers, documented as accepted: success must leave the data intact; an overlap error is accepted too */
        if (success && fits && memcmp(D, iD, (is_str ? (k + 1) : k) * ew)) rule = "identical-pointers-data-changed";
        else if (!success && !cleared) rule = "failed-without-clearing-dest";
    } else if (wr_rd_meet) {
        if (success) rule = exact ? "overlap-not-reported(result-happens-to-be-exact)" : "silently-corrupted-copy";
        else if (!cleared) rule = "failed-without-clearing-dest";
    } else {
        if (success && fits && !exact) rule = "silently-corrupted-copy";
        else if (success && !fits) rule = "success-although-no-space";
        else if (!success && !cleared) rule = "failed-without-clearing-dest";
    }
    if (rule) {
        snprintf(key, sizeof key, "%s|%s|%s|%s|%s|%s", d->name, rule, zone, o->delta < 0 ? "src-below" : o->delta == 0 ? "same" : "src-above", o->bos ? "bos=exact" : "bos=unknown", g_cfg);
        snprintf(obs, sizeof obs, "ret=%s dmax=%zu destlen=%zu srclen=%zu slen=%zu delta=%ld read=[%ld,%ld) written=[%zu,%zu) fits=%d exact=%d cleared=%d",
                 errname(C.ret), dm, dl, Ls, o->slen, o->delta, r_lo, r_hi, wlo, whi, fits, exact, cleared);
        snprintf(what, sizeof what, "%s: %s (%s)", d->name, rule, obs);
        witness_ovl(d, o, idx, obs); if (want("C07")) report("C07", key, what, g_wit);
        /* a success that is not the exact copy is a C06 matter as well, wherever the operands lie */
        if (success && fits && !exact && want("C06")) report("C06", key, what, g_wit);
    }
    if (g_verbose) { witness_ovl(d, o, idx, "verbose"); printf("%s zone=%s\n", g_wit, zone); }
    if (g_samples_emitted < 4 && (idx % 4099) == (long)(g_seed % 4099)) { witness_ovl(d, o, idx, zone); emit_sample(g_wit); g_samples_emitted++; }
}

static void gen_overlap(int fi) {
    const desc_t *d = &D[fi];
    if (d->fam > FAM_FLDOUT) return;
    int has_slen = d->sunit != 0, cat = d->fam == FAM_CAT || d->fam == FAM_NCAT, strsrc = (d->fl & F_STRSRC) != 0;
    size_t maxdm = g_tier ? 24 : 9;
    long idx = 0; ovl_t o;
    for (int pass = 0; pass < 2; pass++)          /* pass 0: the complete small lattice; pass 1: sizes across 0x20 */
    for (size_t dm = pass ? 30 : 1; dm <= (pass ? (g_tier ? 40 : 34) : maxdm); dm += pass ? (g_tier ? 1 : 2) : 1)
    for (size_t L = 0; L <= (pass ? dm + 1 : dm + 2); L += pass ? (dm / 3 + 1) : 1)
    for (int sv = 0; sv < (has_slen ? 5 : 1); sv++)
    for (int dv = 0; dv < (cat ? 3 : 1); dv++)
    for (int bos = 0; bos < 2; bos++) {
        size_t slen = 0;
        if (has_slen) { size_t c[5] = {1, L ? L - 1 : 2, L, L + 1, dm}; slen = c[sv]; if (slen == 0) continue; if (!strsrc && sv != 2) continue; }
        if (!strsrc) slen = L ? L : 1;
        size_t dl = 0; if (cat) { size_t c[3] = {0, 1, dm > 2 ? dm - 2 : 0}; dl = c[dv]; if (dv && dl == c[dv - 1]) continue; }
        size_t span = dm + (strsrc ? L + 1 : slen);
        for (long delta = -(long)span; delta <= (long)span; delta++) {
            long my = idx++;
            if (g_only_idx >= 0 ? my != g_only_idx : (my % g_nw) != g_wid) continue;
            if (my < g_skip_below) continue;
            if (!g_tier && pass == 1 && (my % 3)) continue;
            o.dm = dm; o.L = L; o.slen = slen; o.dl = dl; o.delta = delta; o.bos = bos;
            g_shm->cur = my;
            run_overlap_case(d, &o, my);
        }
    }
}

/* ------------------------------------------------------------------ driver */
static void visit(const desc_t *d, scn_t *s) { if (s->idx < g_skip_below) return; run_one(d, s); }
static void body(void *arg, long lo, long hi) {
    int fi = *(int *)arg; (void)hi;
    /* scenarios are re-generated deterministically; indices below lo were already executed */
    g_skip_below = lo;
    if (g_mode == 1) gen_overlap(fi); else gen_main(fi, visit);
    for (int i = 0; i < K_NUM; i++) __sync_fetch_and_add(&CTR(i), K[i]);
    __sync_fetch_and_add(&CTR(60), g_fp_checks);
    distinct_emit();
}

static void on_death(void *arg, long idx, int status, int hung) {
    int fi = *(int *)arg; char key[300], what[400], wit[400];
    CTR(K_DEATH)++;
    if (!g_shm->in_call) {   /* the harness itself failed: inconclusive, never a verdict on the library */
        fprintf(g_out, "{\"t\":\"harness_error\",\"fn\":\"%s\",\"idx\":%ld,\"status\":%d}\n", D[fi].name, idx, status); fflush(g_out);
        return;
    }
    snprintf(key, sizeof key, "%s|worker-%s|%s", D[fi].name, hung ? "hang" : "death",
             hung ? "watchdog" : WIFSIGNALED(status) ? strsignal(WTERMSIG(status)) : "exit");
    snprintf(what, sizeof what, "%s: the process %s while executing scenario %ld (status %#x)", D[fi].name, hung ? "hung" : "died", idx, status);
    snprintf(wit, sizeof wit, "{\"harness\":\"engine\",\"cfg\":\"%s\",\"fn\":\"%s\",\"idx\":%ld,\"seed\":%llu,\"replay\":\"engine --cfg %s --mode %d --fn %s --idx %ld --seed %llu --tier %s\"}",
             g_cfg, D[fi].name, idx, (unsigned long long)g_seed, g_cfg, g_mode, D[fi].name, idx, (unsigned long long)g_seed, g_tier ? "thorough" : "quick");
    /* a death is a memory-safety event: attribute to C01 (cannot tell read from write) unless another property is selected */
    report(want("C01") ? "C01" : want("C02") ? "C02" : g_prop, key, what, wit);
}

int main(int argc, char **argv) {
    g_out = stdout;
    for (int i = 1; i < argc; i++) {
        if (!strcmp(argv[i], "--prop")) g_prop = argv[++i];
        else if (!strcmp(argv[i], "--tier")) g_tier = !strcmp(argv[++i], "thorough");
        else if (!strcmp(argv[i], "--seed")) g_seed = strtoull(argv[++i], NULL, 10);
        else if (!strcmp(argv[i], "--worker")) { sscanf(argv[++i], "%d/%d", &g_wid, &g_nw); }
        else if (!strcmp(argv[i], "--cfg")) { g_cfg = argv[++i]; g_noslack = !strcmp(g_cfg, "noslack"); }
        else if (!strcmp(argv[i], "--fn")) g_only_fn = argv[++i];
        else if (!strcmp(argv[i], "--idx")) g_only_idx = atol(argv[++i]);
        else if (!strcmp(argv[i], "--mode")) g_mode = atoi(argv[++i]);
        else if (!strcmp(argv[i], "--out")) { g_out = fopen(argv[++i], "w"); if (!g_out) { perror("out"); return 2; } }
        else if (!strcmp(argv[i], "--verbose")) g_verbose = 1;
        else { fprintf(stderr, "unknown arg %s\n", argv[i]); return 2; }
    }
    setlocale(LC_ALL, "C");
    arena_init(); fence_init(); shm_init(); probes_install(); fp_init();
    for (int fi = 0; fi < ND; fi++) {
        if (g_only_fn && strcmp(g_only_fn, D[fi].name)) continue;
        memset(K, 0, sizeof K);
        run_supervised(body, on_death, &fi, 0, 1L << 40, 20);
    }
    for (int i = 0; i < K_NUM; i++) emit_counter(KN[i], CTR(i));
    emit_counter("functions", g_only_fn ? 1 : ND);
    emit_counter("footprint_checks", CTR(60));
    fprintf(g_out, "{\"t\":\"end\"}\n");
    fflush(g_out);
    return 0;
}
