/* C16: qsort_s sorts (permutation + order + comparator discipline), bsearch_s finds iff present,
 * neither touches memory outside nmemb*size bytes (array exact-fit between PROT_NONE pages). */
#include "common.h"

static const char *g_cfg = "plain";
static int g_tier, g_wid, g_nw = 1; static long g_only_idx = -1;
static int want(const char *p) { return !strcmp(g_prop, "ALL") || !strcmp(g_prop, p); }

static uint8_t *g_base; static size_t g_n, g_size; static void *g_ctx;
static int g_bad_ptr, g_bad_ctx, g_bad_align; static unsigned long g_cmp_calls;
static const void *g_keyobj;

static uint32_t keyof(const void *p) { if (g_size < 4) return *(const uint8_t *)p; uint32_t k; memcpy(&k, p, 4); return k; }
static void chkptr(const void *p) {
    const uint8_t *q = p;
    if (q < g_base || q >= g_base + g_n * g_size) g_bad_ptr++;
    else if ((size_t)(q - g_base) % g_size) g_bad_align++;
}
static int cmp_sort(const void *a, const void *b, void *ctx) {
    g_cmp_calls++;
    if (ctx != g_ctx) g_bad_ctx++;
    chkptr(a); chkptr(b);
    if (g_bad_ptr) return 0;    /* do not dereference a wild pointer */
    uint32_t x = keyof(a), y = keyof(b); return x < y ? -1 : x > y;
}
static int cmp_search(const void *k, const void *e, void *ctx) {
    g_cmp_calls++;
    if (ctx != g_ctx) g_bad_ctx++;
    if (k != g_keyobj) g_bad_ptr++;
    chkptr(e);
    if (g_bad_ptr) return 0;
    uint32_t x = keyof(k), y = keyof(e); return x < y ? -1 : x > y;
}
static size_t g_msz;
static int cmp_mem(const void *a, const void *b) { return memcmp(a, b, g_msz); }

enum { K_SORTS, K_SEARCHES, K_CMP, K_FAULTS, K_DEATH, K_NUM };
static const char *KN[] = {"sorts", "searches", "comparator_calls", "faults", "worker_deaths"};
static unsigned long long K[K_NUM];
static char g_wit[900]; static int g_samples;

typedef struct { size_t n, size; int pattern; uint32_t krange; uint64_t cseed; int place; int bos; unsigned long code; } sscn;
static const char *ncls(size_t n) { return n == 0 ? "n=0" : n == 1 ? "n=1" : n <= 9 ? "n=2..9" : n <= 64 ? "n=10..64" : "n>64"; }
static const char *zcls(size_t z) { return z < 4 ? "size<4" : z <= 16 ? "size4..16" : z <= 256 ? "size17..256" : "size>256"; }
static void wit(const sscn *s, long idx, const char *obs) {
    snprintf(g_wit, sizeof g_wit, "{\"harness\":\"sortsearch\",\"cfg\":\"%s\",\"idx\":%ld,\"seed\":%llu,\"nmemb\":%zu,\"size\":%zu,\"pattern\":%d,\"keyrange\":%u,\"code\":%lu,\"place\":%d,\"bos\":%d,\"obs\":\"%s\",\"replay\":\"sortsearch --cfg %s --idx %ld --seed %llu --tier %s\"}",
             g_cfg, idx, (unsigned long long)g_seed, s->n, s->size, s->pattern, s->krange, s->code, s->place, s->bos, obs, g_cfg, idx, (unsigned long long)g_seed, g_tier ? "thorough" : "quick");
}
static void viol(const sscn *s, long idx, const char *fn, const char *rule, const char *obs) {
    char key[200], what[400];
    if (!want("C16")) return;
    snprintf(key, sizeof key, "%s|%s|%s|%s|%s", fn, rule, ncls(s->n), zcls(s->size), s->bos ? "bos=exact" : "bos=unknown");
    snprintf(what, sizeof what, "%s: %s (nmemb=%zu size=%zu pattern=%d): %s", fn, rule, s->n, s->size, s->pattern, obs);
    wit(s, idx, obs); report("C16", key, what, g_wit);
}

static void run_case(const sscn *s, long idx) {
    size_t n = s->n, z = s->size, bytes = n * z;
    if (bytes > SLOT_BYTES - 64) return;
    uint8_t *arr = s->place ? place_begin(0) : place_end(0, bytes ? bytes : 0);
    static uint8_t orig[SLOT_BYTES], a1[SLOT_BYTES], a2[SLOT_BYTES];
    rng_t g = rng_from(s->cseed, n, z);
    /* keys */
    for (size_t i = 0; i < n; i++) {
        uint32_t k;
        switch (s->pattern) {
        case 0: { unsigned long c = s->code; for (size_t j = 0; j < i; j++) c /= 3; k = (uint32_t)(c % 3); } break;   /* exhaustive over {0,1,2} */
        case 1: k = (uint32_t)rnd_n(&g, s->krange ? s->krange : 1); break;
        case 2: k = (uint32_t)i; break;                               /* sorted */
        case 3: k = (uint32_t)(n - i); break;                         /* reversed */
        case 4: k = 7; break;                                         /* all equal */
        default: k = (uint32_t)(i < n / 2 ? i : n - i); break;        /* organ pipe */
        }
        uint8_t *e = arr + i * z;
        for (size_t b = 0; b < z; b++) e[b] = (uint8_t)rnd(&g);       /* payload */
        if (z < 4) e[0] = (uint8_t)k; else memcpy(e, &k, 4);
        if (z >= 8) { uint32_t tag = (uint32_t)i; memcpy(e + 4, &tag, 4); }   /* unique tag */
    }
    memcpy(orig, arr, bytes);
    g_base = arr; g_n = n; g_size = z; g_ctx = (void *)(uintptr_t)(0xC0FFEE00u + (idx & 0xff));
    g_bad_ptr = g_bad_ctx = g_bad_align = 0; g_cmp_calls = 0;
    size_t bos = s->bos ? bytes : BOS_UNKNOWN;
    errno_t rc = -999;
    probes_reset();
    g_shm->in_call = 1; g_cur_fn = "qsort_s"; FENCED(rc = _qsort_s_chk(n ? arr : arr, n, z, cmp_sort, g_ctx, bos)); g_shm->in_call = 0;
    K[K_SORTS]++; K[K_CMP] += g_cmp_calls;
    char obs[200];
    {   char b[120]; snprintf(b, sizeof b, "q;%s;%s;p%d;b%d;pl%d;%s", ncls(n), zcls(z), s->pattern, s->bos, s->place, g_fence.faulted ? "fault" : errname(rc)); distinct_add(hash_str(b) ^ (n <= 9 ? mix64(n * 977 + z) : 0)); }
    if (g_fence.faulted) {
        K[K_FAULTS]++;
        snprintf(obs, sizeof obs, "%s fault at offset %ld from the array start (array bytes %zu)", g_fence.is_write ? "WRITE" : "READ", (long)(g_fence.addr - (uintptr_t)arr), bytes);
        viol(s, idx, "qsort_s", g_fence.is_write ? "write-outside-array" : "read-outside-array", obs);
        return;
    }
    if (n >= 1 && z >= 1 && rc != EOK) { snprintf(obs, sizeof obs, "returned %s for a valid array", errname(rc)); viol(s, idx, "qsort_s", "valid-array-rejected", obs); return; }
    if (g_bad_ptr) { snprintf(obs, sizeof obs, "%d comparator arguments outside [base, base+nmemb*size)", g_bad_ptr); viol(s, idx, "qsort_s", "comparator-pointer-outside-array", obs); }
    if (g_bad_align) { snprintf(obs, sizeof obs, "%d comparator arguments not on an element boundary", g_bad_align); viol(s, idx, "qsort_s", "comparator-pointer-misaligned", obs); }
    if (g_bad_ctx) { snprintf(obs, sizeof obs, "%d comparisons received a context other than the caller's", g_bad_ctx); viol(s, idx, "qsort_s", "context-not-passed", obs); }
    /* ordered? */
    for (size_t i = 1; i < n; i++) if (keyof(arr + (i - 1) * z) > keyof(arr + i * z)) { snprintf(obs, sizeof obs, "element %zu (key %u) > element %zu (key %u)", i - 1, keyof(arr + (i - 1) * z), i, keyof(arr + i * z)); viol(s, idx, "qsort_s", "not-ordered", obs); break; }
    /* permutation? multiset of whole elements */
    if (n) { memcpy(a1, orig, bytes); memcpy(a2, arr, bytes); g_msz = z; qsort(a1, n, z, cmp_mem); qsort(a2, n, z, cmp_mem);
        if (memcmp(a1, a2, bytes)) { viol(s, idx, "qsort_s", "not-a-permutation", "multiset of elements after the sort differs from the input"); return; } }
    /* ---- bsearch_s on the sorted array: every key value from min-1 to max+1 (bounded) */
    if (g_bad_ptr) return;
    uint32_t lo = n ? keyof(arr) : 0, hi = n ? keyof(arr + (n - 1) * z) : 0;
    uint32_t from = lo ? lo - 1 : 0, to = hi + 1; if (to - from > 40) to = from + 40;
    static uint8_t keybuf[1024 + 8];
    for (uint32_t kv = from; kv <= to; kv++) {
        if (z < 4 && kv > 255) break;
        memset(keybuf, 0xEE, sizeof keybuf); if (z < 4) keybuf[0] = (uint8_t)kv; else memcpy(keybuf, &kv, 4);
        g_keyobj = keybuf; g_bad_ptr = g_bad_ctx = g_bad_align = 0; g_cmp_calls = 0;
        void *r = (void *)-1;
        memcpy(a1, arr, bytes);
        g_shm->in_call = 1; g_cur_fn = "bsearch_s"; FENCED(r = _bsearch_s_chk(keybuf, arr, n, z, cmp_search, g_ctx, bos)); g_shm->in_call = 0;
        K[K_SEARCHES]++; K[K_CMP] += g_cmp_calls;
        if (g_fence.faulted) { K[K_FAULTS]++; snprintf(obs, sizeof obs, "%s fault at offset %ld from the array start", g_fence.is_write ? "WRITE" : "READ", (long)(g_fence.addr - (uintptr_t)arr)); viol(s, idx, "bsearch_s", "access-outside-array", obs); return; }
        int present = 0; for (size_t i = 0; i < n; i++) if (keyof(arr + i * z) == kv) { present = 1; break; }
        if (g_bad_ptr || g_bad_align) { snprintf(obs, sizeof obs, "comparator got %d out-of-array / %d misaligned element pointers (key %u)", g_bad_ptr, g_bad_align, kv); viol(s, idx, "bsearch_s", "comparator-pointer-outside-array", obs); }
        if (g_bad_ctx) viol(s, idx, "bsearch_s", "context-not-passed", "comparison received another context");
        if (memcmp(a1, arr, bytes)) viol(s, idx, "bsearch_s", "array-modified", "array changed by a search");
        if (present && !r) { snprintf(obs, sizeof obs, "key %u is in the array but NULL was returned", kv); viol(s, idx, "bsearch_s", "existing-key-not-found", obs); }
        else if (!present && r) { snprintf(obs, sizeof obs, "key %u is absent but a pointer was returned", kv); viol(s, idx, "bsearch_s", "absent-key-found", obs); }
        else if (r) {
            const uint8_t *p = r;
            if (p < arr || p >= arr + bytes || (size_t)(p - arr) % z) { snprintf(obs, sizeof obs, "returned pointer at offset %ld is not an element", (long)(p - arr)); viol(s, idx, "bsearch_s", "result-not-an-element", obs); }
            else if (keyof(p) != kv) { snprintf(obs, sizeof obs, "returned element has key %u, searched %u", keyof(p), kv); viol(s, idx, "bsearch_s", "result-does-not-match", obs); }
        }
    }
    if (g_verbose) { wit(s, idx, "verbose"); printf("%s\n", g_wit); }
    if (g_samples < 5 && idx % 1013 == (long)(g_seed % 1013)) { wit(s, idx, "sample"); emit_sample(g_wit); g_samples++; }
}

static const size_t SIZES[] = {1, 2, 3, 4, 7, 8, 12, 16, 31, 64, 100, 255, 256, 257, 300};
static long g_skip_below;
static void gen(void) {
    long idx = 0; sscn s;
    size_t maxn = g_tier ? 9 : 7;
    /* exhaustive key patterns over {0,1,2} */
    for (size_t n = 0; n <= maxn; n++) { unsigned long total = 1; for (size_t i = 0; i < n; i++) total *= 3;
        for (unsigned long code = 0; code < total; code++) for (int zi = 0; zi < 4; zi++) {
            static const size_t zs[4] = {1, 4, 8, 300};
            long my = idx++; if (g_only_idx >= 0 ? my != g_only_idx : (my % g_nw != g_wid || my < g_skip_below)) continue;
            memset(&s, 0, sizeof s); s.n = n; s.size = zs[zi]; if (s.n * s.size > SLOT_BYTES - 64) continue; s.pattern = 0; s.code = code; s.cseed = g_seed + my; s.place = (int)(code & 1); s.bos = (int)((code >> 1) & 1);
            g_shm->cur = my; run_case(&s, my);
        } }
    /* shaped and random arrays over all element sizes */
    int rounds = g_tier ? 40 : 6;
    for (int r = 0; r < rounds; r++) for (unsigned zi = 0; zi < sizeof SIZES / sizeof SIZES[0]; zi++) for (int pat = 1; pat <= 5; pat++) for (int kr = 0; kr < (pat == 1 ? 5 : 1); kr++) {
        long my = idx++; if (g_only_idx >= 0 ? my != g_only_idx : (my % g_nw != g_wid || my < g_skip_below)) continue;
        rng_t g = rng_from(g_seed, (uint64_t)my, 17);
        memset(&s, 0, sizeof s); s.size = SIZES[zi];
        size_t cap = (SLOT_BYTES - 64) / s.size; if (cap > 5000) cap = 5000;
        s.n = r == 0 ? (cap < 40 ? cap : 10 + rnd_n(&g, 30)) : rnd_n(&g, rnd_n(&g, 3) ? 64 : cap + 1);
        if (s.n > cap) s.n = cap;
        s.pattern = pat; s.krange = kr == 0 ? 1 : kr == 1 ? 2 : kr == 2 ? (uint32_t)(s.n / 2 + 1) : kr == 3 ? (uint32_t)(s.n + 1) : 0x7fffffff;
        if (s.size < 4 && s.krange > 256) s.krange = 256;
        s.cseed = g_seed * 31 + my; s.place = (int)rnd_n(&g, 2); s.bos = (int)rnd_n(&g, 2);
        g_shm->cur = my; run_case(&s, my);
    }
}
static void body(void *a, long lo, long hi) { (void)a; (void)hi; g_skip_below = lo; gen(); for (int i = 0; i < K_NUM; i++) __sync_fetch_and_add(&CTR(i), K[i]); __sync_fetch_and_add(&CTR(60), g_fp_checks); distinct_emit(); }
static void on_death(void *a, long idx, int status, int hung) {
    (void)a; char key[200], what[300], w[300];
    CTR(K_DEATH)++;
    if (!g_shm->in_call) { fprintf(g_out, "{\"t\":\"harness_error\",\"idx\":%ld,\"status\":%d}\n", idx, status); fflush(g_out); return; }
    snprintf(key, sizeof key, "qsort_bsearch|worker-%s|%s", hung ? "hang" : "death", hung ? "watchdog" : WIFSIGNALED(status) ? strsignal(WTERMSIG(status)) : "exit");
    snprintf(what, sizeof what, "process %s in scenario %ld (status %#x)", hung ? "hung" : "died", idx, status);
    snprintf(w, sizeof w, "{\"harness\":\"sortsearch\",\"cfg\":\"%s\",\"idx\":%ld,\"replay\":\"sortsearch --cfg %s --idx %ld --seed %llu --tier %s\"}", g_cfg, idx, g_cfg, idx, (unsigned long long)g_seed, g_tier ? "thorough" : "quick");
    report("C16", key, what, w);
}
int main(int argc, char **argv) {
    g_out = stdout;
    for (int i = 1; i < argc; i++) {
        if (!strcmp(argv[i], "--prop")) g_prop = argv[++i];
        else if (!strcmp(argv[i], "--tier")) g_tier = !strcmp(argv[++i], "thorough");
        else if (!strcmp(argv[i], "--seed")) g_seed = strtoull(argv[++i], NULL, 10);
        else if (!strcmp(argv[i], "--worker")) sscanf(argv[++i], "%d/%d", &g_wid, &g_nw);
        else if (!strcmp(argv[i], "--cfg")) g_cfg = argv[++i];
        else if (!strcmp(argv[i], "--idx")) g_only_idx = atol(argv[++i]);
        else if (!strcmp(argv[i], "--verbose")) g_verbose = 1;
        else { fprintf(stderr, "unknown arg %s\n", argv[i]); return 2; }
    }
    arena_init(); fence_init(); shm_init(); probes_install(); fp_init();
    int dummy = 0;
    run_supervised(body, on_death, &dummy, 0, 1L << 40, 30);
    for (int i = 0; i < K_NUM; i++) emit_counter(KN[i], CTR(i));
    emit_counter("footprint_checks", CTR(60));
    fprintf(g_out, "{\"t\":\"end\"}\n"); fflush(g_out);
    return 0;
}
