/* fmtw: C09 for the wide printf_s family (8 entry points) and the narrow + wide scanf_s families (6 + 6),
 * plus fence / terminator / clearing observations (C01, C03, C04, C05) for the wide buffer printf functions.
 * Every %n-type directive gets a pointer to a poisoned sentinel; a changed sentinel or a non-rejected call is the event.
 * groups: "n" narrow-oriented stdio (scanf_s family incl. stdin), "w" wide-oriented stdio (wprintf_s, wscanf_s families). */
#include "common.h"
#include "vcall_gen.h"
#include <wchar.h>

static const char *g_cfg = "plain"; static int g_noslack; static int g_tier; static const char *g_group = "n";
static int want(const char *p) { return !strcmp(g_prop, "ALL") || !strcmp(g_prop, p); }
#define POISON 0x5A5A5A5A5A5A5A5ALL
static long long SENT[2]; static long long SINK[4];

/* ---- targets */
enum { W_SWPRINTF, W_SNWPRINTF, W_VSWPRINTF, W_VSNWPRINTF, W_FWPRINTF, W_VFWPRINTF, W_WPRINTF, W_VWPRINTF,
       S_SSCANF, S_VSSCANF, S_FSCANF, S_VFSCANF, S_SCANF, S_VSCANF,
       S_SWSCANF, S_VSWSCANF, S_FWSCANF, S_VFWSCANF, S_WSCANF, S_VWSCANF, T_NUM };
static const char *TN[T_NUM] = {"swprintf_s", "snwprintf_s", "vswprintf_s", "vsnwprintf_s", "fwprintf_s", "vfwprintf_s", "wprintf_s", "vwprintf_s",
    "sscanf_s", "vsscanf_s", "fscanf_s", "vfscanf_s", "scanf_s", "vscanf_s", "swscanf_s", "vswscanf_s", "fwscanf_s", "vfwscanf_s", "wscanf_s", "vwscanf_s"};
static wchar_t *P_wdest; static size_t P_n, P_b; static const wchar_t *P_wfmt; static const char *P_fmt; static FILE *P_stream; static const char *P_in; static const wchar_t *P_win; static int P_ret;
static int tr_vswprintf(wchar_t *d, size_t n, size_t b, const wchar_t *f, ...) { va_list ap; va_start(ap, f); int r = _vswprintf_s_chk(d, n, b, f, ap); va_end(ap); return r; }
static int tr_vsnwprintf(wchar_t *d, size_t n, size_t b, const wchar_t *f, ...) { va_list ap; va_start(ap, f); int r = _vsnwprintf_s_chk(d, n, b, f, ap); va_end(ap); return r; }
static int tr_vfwprintf(FILE *s, const wchar_t *f, ...) { va_list ap; va_start(ap, f); int r = vfwprintf_s(s, f, ap); va_end(ap); return r; }
static int tr_vwprintf(const wchar_t *f, ...) { va_list ap; va_start(ap, f); int r = vwprintf_s(f, ap); va_end(ap); return r; }
static int tr_vsscanf(const char *in, const char *f, ...) { va_list ap; va_start(ap, f); int r = vsscanf_s(in, f, ap); va_end(ap); return r; }
static int tr_vfscanf(FILE *s, const char *f, ...) { va_list ap; va_start(ap, f); int r = vfscanf_s(s, f, ap); va_end(ap); return r; }
static int tr_vscanf(const char *f, ...) { va_list ap; va_start(ap, f); int r = vscanf_s(f, ap); va_end(ap); return r; }
static int tr_vswscanf(const wchar_t *in, const wchar_t *f, ...) { va_list ap; va_start(ap, f); int r = vswscanf_s(in, f, ap); va_end(ap); return r; }
static int tr_vfwscanf(FILE *s, const wchar_t *f, ...) { va_list ap; va_start(ap, f); int r = vfwscanf_s(s, f, ap); va_end(ap); return r; }
static int tr_vwscanf(const wchar_t *f, ...) { va_list ap; va_start(ap, f); int r = vwscanf_s(f, ap); va_end(ap); return r; }
#define C0(...)  P_ret = _swprintf_s_chk(P_wdest, P_n, P_b, P_wfmt, ##__VA_ARGS__)
#define C1(...)  P_ret = _snwprintf_s_chk(P_wdest, P_n, P_b, P_wfmt, ##__VA_ARGS__)
#define C2(...)  P_ret = tr_vswprintf(P_wdest, P_n, P_b, P_wfmt, ##__VA_ARGS__)
#define C3(...)  P_ret = tr_vsnwprintf(P_wdest, P_n, P_b, P_wfmt, ##__VA_ARGS__)
#define C4(...)  P_ret = fwprintf_s(P_stream, P_wfmt, ##__VA_ARGS__)
#define C5(...)  P_ret = tr_vfwprintf(P_stream, P_wfmt, ##__VA_ARGS__)
#define C6(...)  P_ret = wprintf_s(P_wfmt, ##__VA_ARGS__)
#define C7(...)  P_ret = tr_vwprintf(P_wfmt, ##__VA_ARGS__)
#define C8(...)  P_ret = sscanf_s(P_in, P_fmt, ##__VA_ARGS__)
#define C9(...)  P_ret = tr_vsscanf(P_in, P_fmt, ##__VA_ARGS__)
#define C10(...) P_ret = fscanf_s(P_stream, P_fmt, ##__VA_ARGS__)
#define C11_(...) P_ret = tr_vfscanf(P_stream, P_fmt, ##__VA_ARGS__)
#define C12_(...) P_ret = scanf_s(P_fmt, ##__VA_ARGS__)
#define C13_(...) P_ret = tr_vscanf(P_fmt, ##__VA_ARGS__)
#define C14_(...) P_ret = swscanf_s(P_win, P_wfmt, ##__VA_ARGS__)
#define C15_(...) P_ret = tr_vswscanf(P_win, P_wfmt, ##__VA_ARGS__)
#define C16_(...) P_ret = fwscanf_s(P_stream, P_wfmt, ##__VA_ARGS__)
#define C17_(...) P_ret = tr_vfwscanf(P_stream, P_wfmt, ##__VA_ARGS__)
#define C18_(...) P_ret = wscanf_s(P_wfmt, ##__VA_ARGS__)
#define C19_(...) P_ret = tr_vwscanf(P_wfmt, ##__VA_ARGS__)
static void call_target(int t, const varg_t *a, int na) {
    int code = 0;
    switch (t) {
    case 0: VCALL_SWITCH(C0, na, code); break; case 1: VCALL_SWITCH(C1, na, code); break; case 2: VCALL_SWITCH(C2, na, code); break; case 3: VCALL_SWITCH(C3, na, code); break;
    case 4: VCALL_SWITCH(C4, na, code); break; case 5: VCALL_SWITCH(C5, na, code); break; case 6: VCALL_SWITCH(C6, na, code); break; case 7: VCALL_SWITCH(C7, na, code); break;
    case 8: VCALL_SWITCH(C8, na, code); break; case 9: VCALL_SWITCH(C9, na, code); break; case 10: VCALL_SWITCH(C10, na, code); break; case 11: VCALL_SWITCH(C11_, na, code); break;
    case 12: VCALL_SWITCH(C12_, na, code); break; case 13: VCALL_SWITCH(C13_, na, code); break; case 14: VCALL_SWITCH(C14_, na, code); break; case 15: VCALL_SWITCH(C15_, na, code); break;
    case 16: VCALL_SWITCH(C16_, na, code); break; case 17: VCALL_SWITCH(C17_, na, code); break; case 18: VCALL_SWITCH(C18_, na, code); break; case 19: VCALL_SWITCH(C19_, na, code); break;
    }
}

/* ---- format cases: a list of %n spellings embedded in contexts; class = spelling class (finite) */
typedef struct { const char *spell; const char *cls; int star; } nspell;
static const nspell NSP[] = {
    {"%n", "plain", 0}, {"%ln", "length-l", 0}, {"%lln", "length-ll", 0}, {"%hn", "length-h", 0}, {"%hhn", "length-hh", 0}, {"%jn", "length-j", 0}, {"%zn", "length-z", 0}, {"%tn", "length-t", 0},
    {"%5n", "width", 0}, {"%-n", "flag-minus", 0}, {"%0n", "flag-zero", 0}, {"% n", "flag-space", 0}, {"%+n", "flag-plus", 0}, {"%#n", "flag-hash", 0}, {"%.3n", "precision", 0},
    {"%-5ln", "flag+width+length", 0}, {"%*n", "star-width", 1}, {"%%%n", "after-escaped-percent", 0}, {"%%%%%n", "after-two-escaped-percents", 0}, {"%%%ln", "after-escaped-percent+length", 0},
    {"%1$n", "positional", 0}, {"%Zn", "length-Z(glibc)", 0}, {"%mn", "flag-m(glibc)", 0}, {"%Ln", "length-L", 0}, {"%qn", "length-q", 0}, {"%'n", "flag-quote", 0}, {"%In", "flag-I(glibc)", 0},
};
#define NNSP ((int)(sizeof NSP / sizeof NSP[0]))
static const char *PCTX[] = {"%s", "x%s", "%%d%s", "v=%%d;%s", "%%d%5000s%s"};   /* printf contexts: %%d consumes an int before; 4: the directive lies more than 4096 characters into the format (5000 blanks) */
#define NPCTX 5
static const char *SCTX[] = {"%s", "%%d%s", "%%d %s%%d", "%%3[0-9]%s", "%%d%s%%3[0-9]", "%%3[0-9]%s]", "%%d%5000s%s"};   /* scanf contexts; 3..5: scansets before / after the directive, a literal ']' after it */
#define NSCTX 7   /* 6: the directive lies more than 4096 characters into the format */

enum { K_CALLS, K_C09, K_NFORMATS, K_WBUF, K_DEATH, K_NUM };
static const char *KN[] = {"calls", "c09_decided", "n_formats", "wide_buffer_calls_checked", "worker_deaths"};
static unsigned long long K[K_NUM];
static char g_wit[900];
static FILE *g_tmpn, *g_tmpw, *g_in;   /* narrow tmp, wide tmp, stdin backing */

static void vio(const char *prop, int t, const char *rule, const char *cls, const char *fmt, const char *obs) {
    char key[260], what[500]; char ef[200] = "";
    if (!want(prop)) return;
    for (const char *p = fmt; *p && strlen(ef) < 170; p++) {
        size_t run = strspn(p, " "); if (run >= 8) { sb_add(ef, sizeof ef, "<%zu blanks>", run); p += run - 1; continue; }   /* the far-offset contexts */
        if (*p == '"' || *p == '\\') sb_add(ef, sizeof ef, "\\%c", *p); else sb_add(ef, sizeof ef, "%c", *p); }
    snprintf(key, sizeof key, "%s|%s|%s", TN[t], rule, cls);
    snprintf(what, sizeof what, "%s(\"%s\"): %s: %s", TN[t], ef, rule, obs);
    snprintf(g_wit, sizeof g_wit, "{\"harness\":\"fmtw\",\"cfg\":\"%s\",\"group\":\"%s\",\"fn\":\"%s\",\"format\":\"%s\",\"obs\":\"%s\",\"replay\":\"fmtw --cfg %s --group %s\"}", g_cfg, g_group, TN[t], ef, obs, g_cfg, g_group);
    report(prop, key, what, g_wit);
}
static void towide(wchar_t *w, const char *s) { while ((*w++ = (unsigned char)*s++)); }
static void set_stdin(const char *text) {
    int fd = fileno(g_in); if (ftruncate(fd, 0)) {} lseek(fd, 0, SEEK_SET); if (write(fd, text, strlen(text)) < 0) {} lseek(fd, 0, SEEK_SET);
    clearerr(stdin); fseek(stdin, 0, SEEK_SET);
}
static void set_file(FILE *f, const char *text, int wide) {
    int fd = fileno(f); fflush(f); if (ftruncate(fd, 0)) {} rewind(f);
    if (wide) { for (const char *p = text; *p; p++) fputwc((wchar_t)(unsigned char)*p, f); } else fputs(text, f);
    fflush(f); rewind(f);
}

static void run_printf_w(int t, const nspell *ns, int ctx, int primed) {
    static char fmt[6200]; static wchar_t wfmt[6200]; varg_t a[4]; int na = 0; char obs[200];
    if (ctx == 4) snprintf(fmt, sizeof fmt, PCTX[ctx], "", ns->spell); else snprintf(fmt, sizeof fmt, PCTX[ctx], ns->spell);
    towide(wfmt, fmt);
    memset(a, 0, sizeof a);
    if (strstr(PCTX[ctx], "%%d")) a[na++].g = 42;
    if (ns->star) a[na++].g = 3;
    SENT[0] = POISON; a[na++].g = (long long)(intptr_t)&SENT[0];
    size_t dmax = 40; wchar_t *dest = place_end(0, dmax * sizeof(wchar_t)); for (size_t i = 0; i < dmax; i++) dest[i] = 0x61 + (wchar_t)(i % 26);
    P_wdest = dest; P_n = dmax; P_b = dmax * sizeof(wchar_t); P_wfmt = wfmt; P_stream = g_tmpw; P_ret = -99999;
    if (t == W_FWPRINTF || t == W_VFWPRINTF) set_file(g_tmpw, "", 1);
    if (primed) {   /* history: the very same format buffer first holds a harmless format and is accepted; then its content changes */
        static wchar_t keep[6200]; memcpy(keep, wfmt, sizeof keep); towide(wfmt, "ok"); call_target(t, a, na); memcpy(wfmt, keep, sizeof keep);
        for (size_t i = 0; i < dmax; i++) dest[i] = 0x61 + (wchar_t)(i % 26); SENT[0] = POISON;
        if (t == W_FWPRINTF || t == W_VFWPRINTF) set_file(g_tmpw, "", 1);
    }
    probes_reset();
    g_shm->in_call = 1; g_cur_fn = TN[t]; FENCED(call_target(t, a, na)); g_shm->in_call = 0;
    K[K_CALLS]++; K[K_C09]++;
    {   char b[120]; snprintf(b, sizeof b, "%s;%s;%d;%d", TN[t], ns->cls, ctx, primed); distinct_add(hash_str(b)); }
    if (g_fence.faulted) { snprintf(obs, sizeof obs, "%s fault during a format with a %%n directive", g_fence.is_write ? "WRITE" : "READ"); vio(g_fence.is_write ? "C01" : "C02", t, g_fence.is_write ? "W-fault" : "R-fault", ns->cls, fmt, obs); return; }
    if (SENT[0] != POISON) { snprintf(obs, sizeof obs, "the %%n target was written: %#llx (ret %d)", (unsigned long long)SENT[0], P_ret); vio("C09", t, "n-directive-executed", ns->cls, fmt, obs); }
    if (P_ret >= 0 || g_h.count == 0) { snprintf(obs, sizeof obs, "returned %d with %d handler invocations", P_ret, g_h.count); vio("C09", t, "n-format-not-rejected", ns->cls, fmt, obs); }
    if (t <= W_VSNWPRINTF && P_ret < 0) {     /* failed call on a buffer: terminated and cleared? */
        K[K_WBUF]++;
        size_t i; for (i = 0; i < dmax; i++) if (!dest[i]) break;
        if (i == dmax) vio("C03", t, "unterminated-dest", "after-rejected-format", fmt, "no NUL in dest after the call failed");
        else if (dest[0]) vio("C04", t, "dest[0]-not-zero", "after-rejected-format", fmt, "failed call left formatted output at dest[0]");
    }
    if (t == W_WPRINTF || t == W_VWPRINTF) fflush(stdout);
}
static void run_scanf(int t, const nspell *ns, int ctx, int primed) {
    static char fmt[6200]; static wchar_t wfmt[6200]; wchar_t win[32]; varg_t a[4]; int na = 0; char obs[200];
    if (ctx == 6) snprintf(fmt, sizeof fmt, SCTX[ctx], "", ns->spell); else snprintf(fmt, sizeof fmt, SCTX[ctx], ns->spell);
    towide(wfmt, fmt);
    const char *input = strstr(ns->spell, "%%%%") ? "12%% 34" : strstr(ns->spell, "%%") ? "12% 34" : "12 34";
    if (ctx == 0 && strstr(ns->spell, "%%")) input = strstr(ns->spell, "%%%%") ? "%% 34" : "% 34";
    towide(win, input);
    memset(a, 0, sizeof a); memset(SINK, 0, sizeof SINK);
    if (ctx >= 1) a[na++].g = (long long)(intptr_t)&SINK[0];
    if (ns->star) { /* '*' in scanf suppresses assignment: no argument */ }
    SENT[0] = POISON; if (!ns->star) a[na++].g = (long long)(intptr_t)&SENT[0];
    if (ctx == 2 || ctx == 4) a[na++].g = (long long)(intptr_t)&SINK[1];
    P_fmt = fmt; P_wfmt = wfmt; P_in = input; P_win = win; P_ret = -99999;
    int wide = t >= S_SWSCANF;
    if (t == S_FSCANF || t == S_VFSCANF) { set_file(g_tmpn, input, 0); P_stream = g_tmpn; }
    if (t == S_FWSCANF || t == S_VFWSCANF) { set_file(g_tmpw, input, 1); P_stream = g_tmpw; }
    if (t == S_SCANF || t == S_VSCANF || t == S_WSCANF || t == S_VWSCANF) set_stdin(input);
    (void)wide;
    if (primed == 2) {   /* the stream has already hit end-of-file in an earlier read (flag set): the format is still to be rejected */
        FILE *f = (t == S_FSCANF || t == S_VFSCANF) ? g_tmpn : (t == S_FWSCANF || t == S_VFWSCANF) ? g_tmpw : stdin;
        if (t >= S_SWSCANF) { while (fgetwc(f) != WEOF) ; } else { while (fgetc(f) != EOF) ; }
    } else
    if (primed) {   /* the same format buffers first hold a harmless format */
        static char keep[6200]; static wchar_t wkeep[6200]; varg_t pa[1]; memcpy(keep, fmt, sizeof keep); memcpy(wkeep, wfmt, sizeof wkeep);
        strcpy(fmt, "%d"); towide(wfmt, fmt); pa[0].g = (long long)(intptr_t)&SINK[3]; pa[0].cls = 0; call_target(t, pa, 1);
        memcpy(fmt, keep, sizeof keep); memcpy(wfmt, wkeep, sizeof wkeep); SENT[0] = POISON;
        if (t == S_FSCANF || t == S_VFSCANF) set_file(g_tmpn, input, 0);
        if (t == S_FWSCANF || t == S_VFWSCANF) set_file(g_tmpw, input, 1);
        if (t == S_SCANF || t == S_VSCANF || t == S_WSCANF || t == S_VWSCANF) set_stdin(input);
    }
    probes_reset();
    g_shm->in_call = 1; g_cur_fn = TN[t]; FENCED(call_target(t, a, na)); g_shm->in_call = 0;
    K[K_CALLS]++; K[K_C09]++;
    {   char b[120]; snprintf(b, sizeof b, "%s;%s;%d;%d", TN[t], ns->cls, ctx, primed); distinct_add(hash_str(b)); }
    if (g_fence.faulted) { snprintf(obs, sizeof obs, "%s fault", g_fence.is_write ? "WRITE" : "READ"); vio(g_fence.is_write ? "C01" : "C02", t, g_fence.is_write ? "W-fault" : "R-fault", ns->cls, fmt, obs); return; }
    if (ns->star) return;     /* %*n: nothing to store by definition; rejection is checked for the other spellings */
    if (SENT[0] != POISON) { snprintf(obs, sizeof obs, "the %%n target was written: %#llx (ret %d, input '%s')", (unsigned long long)SENT[0], P_ret, input); vio("C09", t, "n-directive-executed", ns->cls, fmt, obs); }
    if (g_h.count == 0) { snprintf(obs, sizeof obs, "returned %d without invoking the handler", P_ret); vio("C09", t, "n-format-not-rejected", ns->cls, fmt, obs); }
}

static void body(void *arg, long lo, long hi) {
    (void)arg; (void)hi; int wgroup = !strcmp(g_group, "w");
    for (int s = 0; s < NNSP; s++) {
        K[K_NFORMATS]++;
        if (wgroup) { for (int t = W_SWPRINTF; t <= W_VWPRINTF; t++) for (int c = 0; c < NPCTX; c++) { long id = s * 1000 + t * 10 + c; if (id < lo) continue; g_shm->cur = id; run_printf_w(t, &NSP[s], c, 0); run_printf_w(t, &NSP[s], c, 1); }
                      for (int t = S_SWSCANF; t <= S_VWSCANF; t++) for (int c = 0; c < NSCTX; c++) { long id = s * 1000 + t * 10 + c; if (id < lo) continue; g_shm->cur = id; run_scanf(t, &NSP[s], c, 0); run_scanf(t, &NSP[s], c, 1); if (t != S_SSCANF && t != S_VSSCANF && t != S_SWSCANF && t != S_VSWSCANF && c < 2) run_scanf(t, &NSP[s], c, 2); } }
        else for (int t = S_SSCANF; t <= S_VSCANF; t++) for (int c = 0; c < NSCTX; c++) { long id = s * 1000 + t * 10 + c; if (id < lo) continue; g_shm->cur = id; run_scanf(t, &NSP[s], c, 0); run_scanf(t, &NSP[s], c, 1); if (t != S_SSCANF && t != S_VSSCANF && t != S_SWSCANF && t != S_VSWSCANF && c < 2) run_scanf(t, &NSP[s], c, 2); }
    }
    for (int i = 0; i < K_NUM; i++) __sync_fetch_and_add(&CTR(i), K[i]); distinct_emit();
}
static void on_death(void *a, long idx, int status, int hung) {
    (void)a; char key[200], what[300], w[300]; CTR(K_DEATH)++;
    if (!g_shm->in_call) { fprintf(g_out, "{\"t\":\"harness_error\",\"idx\":%ld,\"status\":%d}\n", idx, status); fflush(g_out); return; }
    int t = (int)((idx % 1000) / 10), s = (int)(idx / 1000);
    snprintf(key, sizeof key, "%s|worker-%s|%s", t < T_NUM ? TN[t] : "?", hung ? "hang" : "death", s < NNSP ? NSP[s].cls : "?");
    snprintf(what, sizeof what, "%s: process %s while handling a format with a %%n directive (%s), status %#x", t < T_NUM ? TN[t] : "?", hung ? "hung" : "died", s < NNSP ? NSP[s].spell : "?", status);
    snprintf(w, sizeof w, "{\"harness\":\"fmtw\",\"cfg\":\"%s\",\"group\":\"%s\",\"idx\":%ld,\"replay\":\"fmtw --cfg %s --group %s\"}", g_cfg, g_group, idx, g_cfg, g_group);
    report("C09", key, what, w);
}
int main(int argc, char **argv) {
    g_out = fdopen(dup(1), "w");
    for (int i = 1; i < argc; i++) {
        if (!strcmp(argv[i], "--prop")) g_prop = argv[++i];
        else if (!strcmp(argv[i], "--tier")) g_tier = !strcmp(argv[++i], "thorough");
        else if (!strcmp(argv[i], "--seed")) g_seed = strtoull(argv[++i], NULL, 10);
        else if (!strcmp(argv[i], "--worker")) ++i;
        else if (!strcmp(argv[i], "--cfg")) { g_cfg = argv[++i]; g_noslack = !strcmp(g_cfg, "noslack"); }
        else if (!strcmp(argv[i], "--group")) g_group = argv[++i];
        else if (!strcmp(argv[i], "--verbose")) g_verbose = 1;
        else { fprintf(stderr, "unknown arg %s\n", argv[i]); return 2; }
    }
    setlocale(LC_ALL, "C.UTF-8");
    g_tmpn = tmpfile(); g_tmpw = tmpfile(); g_in = tmpfile(); FILE *so = tmpfile();
    if (!g_tmpn || !g_tmpw || !g_in || !so) { fprintf(g_out, "{\"t\":\"harness_error\",\"why\":\"tmpfile\"}\n"); return 2; }
    dup2(fileno(so), 1); dup2(fileno(g_in), 0);
    fwide(g_tmpw, 1);
    if (!strcmp(g_group, "w")) { fwide(stdout, 1); fwide(stdin, 1); } else { fwide(stdin, -1); }
    arena_init(); fence_init(); shm_init(); probes_install();
    int dummy = 0; run_supervised(body, on_death, &dummy, 0, 1L << 40, 30);
    for (int i = 0; i < K_NUM; i++) emit_counter(KN[i], CTR(i));
    fprintf(g_out, "{\"t\":\"end\"}\n"); fflush(g_out);
    return 0;
}
