/* queries: read-only comparison / search / span / length / classification exports.
 * Small-alphabet exhaustive sweeps under the fence; monitors:
 *   C10 result vs. reference computed on bounded private copies, operands unchanged
 *   C02 read faults (exact-fit operands against PROT_NONE)     C01 write faults / changed operand bytes
 *   C05 R1-R5 (handler count / code, classifier for NULL / zero / over-limit sizes)
 */
#include "common.h"
#include <ctype.h>
#include <wctype.h>
#include <stdbool.h>

static const char *g_cfg = "plain";
static int g_tier, g_wid, g_nw = 1; static const char *g_only_fn; static long g_only_idx = -1;
static int want(const char *p) { return !strcmp(g_prop, "ALL") || !strcmp(g_prop, p); }

typedef struct {
    const void *dest; size_t dmax, destbos;
    const void *src; size_t slen, srcbos;
    size_t count; int ch; int fold;
    void *out; long ret;
} qctx;
static qctx Q;

enum { RK_SIGN, RK_PTR, RK_COUNT, RK_BOOL, RK_STATUS, RK_LEN };
#define QF_SRC   0x01   /* second string operand */
#define QF_SLEN  0x02   /* slen / smax argument for src */
#define QF_CH    0x04   /* character argument */
#define QF_MEM   0x08   /* raw memory operands (no terminator semantics), memory handler */
#define QF_WIDE  0x10
#define QF_CNT   0x20   /* extra count argument (wcsncmp_s) */
#define QF_FOLD  0x40   /* fold_case argument */
#define QF_SRCBOS 0x80
#define QF_NOOUT 0x100

typedef struct { int status; long val; int skip; } qexp;
typedef struct qdesc {
    const char *name; int ew; int rk; unsigned fl; size_t limit;
    void (*call)(void);
    void (*ref)(const uint32_t *d, size_t dn, const uint32_t *s, size_t sn, qexp *e);   /* bounded copies as code units */
} qdesc;

#define QA(name, expr) static void c_##name(void) { expr; }
QA(strcmp_s,      Q.ret = _strcmp_s_chk(Q.dest, Q.dmax, Q.src, Q.out, Q.destbos, Q.srcbos))
QA(strcasecmp_s,  Q.ret = _strcasecmp_s_chk(Q.dest, Q.dmax, Q.src, Q.out, Q.destbos))
QA(strnatcmp_s,   Q.ret = _strnatcmp_s_chk(Q.dest, Q.dmax, Q.src, Q.fold, Q.out, Q.destbos, Q.srcbos))
QA(strcmpfld_s,   Q.ret = _strcmpfld_s_chk(Q.dest, Q.dmax, Q.src, Q.out, Q.destbos))
QA(strcoll_s,     Q.ret = _strcoll_s_chk(Q.dest, Q.dmax, Q.src, Q.out, Q.destbos))
QA(memcmp_s,      Q.ret = _memcmp_s_chk(Q.dest, Q.dmax, Q.src, Q.slen, Q.out, Q.destbos, Q.srcbos))
QA(memcmp16_s,    Q.ret = _memcmp16_s_chk(Q.dest, Q.dmax, Q.src, Q.slen, Q.out, Q.destbos, Q.srcbos))
QA(memcmp32_s,    Q.ret = _memcmp32_s_chk(Q.dest, Q.dmax, Q.src, Q.slen, Q.out, Q.destbos, Q.srcbos))
QA(wmemcmp_s,     Q.ret = _wmemcmp_s_chk(Q.dest, Q.dmax, Q.src, Q.slen, Q.out, Q.destbos, Q.srcbos))
QA(wcscmp_s,      Q.ret = _wcscmp_s_chk(Q.dest, Q.dmax, Q.src, Q.slen, Q.out, Q.destbos, Q.srcbos))
QA(wcsncmp_s,     Q.ret = _wcsncmp_s_chk(Q.dest, Q.dmax, Q.src, Q.slen, Q.count, Q.out, Q.destbos, Q.srcbos))
QA(wcsicmp_s,     Q.ret = _wcsicmp_s_chk(Q.dest, Q.dmax, Q.src, Q.slen, Q.out, Q.destbos, Q.srcbos))
QA(wcsnatcmp_s,   Q.ret = _wcsnatcmp_s_chk(Q.dest, Q.dmax, Q.src, Q.slen, Q.fold, Q.out, Q.destbos, Q.srcbos))
QA(wcscoll_s,     Q.ret = _wcscoll_s_chk(Q.dest, Q.dmax, Q.src, Q.slen, Q.out, Q.destbos, Q.srcbos))
QA(strstr_s,      Q.ret = _strstr_s_chk((char *)Q.dest, Q.dmax, Q.src, Q.slen, Q.out, Q.destbos, Q.srcbos))
QA(strcasestr_s,  Q.ret = _strcasestr_s_chk((char *)Q.dest, Q.dmax, Q.src, Q.slen, Q.out, Q.destbos, Q.srcbos))
QA(wcsstr_s,      Q.ret = _wcsstr_s_chk((wchar_t *)Q.dest, Q.dmax, Q.src, Q.slen, Q.out, Q.destbos, Q.srcbos))
QA(strpbrk_s,     Q.ret = _strpbrk_s_chk((char *)Q.dest, Q.dmax, (char *)Q.src, Q.slen, Q.out, Q.destbos, Q.srcbos))
QA(strspn_s,      Q.ret = _strspn_s_chk(Q.dest, Q.dmax, Q.src, Q.slen, Q.out, Q.destbos, Q.srcbos))
QA(strcspn_s,     Q.ret = _strcspn_s_chk(Q.dest, Q.dmax, Q.src, Q.slen, Q.out, Q.destbos, Q.srcbos))
QA(strprefix_s,   Q.ret = _strprefix_s_chk(Q.dest, Q.dmax, Q.src, Q.destbos))
QA(strchr_s,      Q.ret = _strchr_s_chk(Q.dest, Q.dmax, Q.ch, Q.out, Q.destbos))
QA(strrchr_s,     Q.ret = _strrchr_s_chk(Q.dest, Q.dmax, Q.ch, Q.out, Q.destbos))
QA(memchr_s,      Q.ret = _memchr_s_chk(Q.dest, Q.dmax, Q.ch, Q.out, Q.destbos))
QA(memrchr_s,     Q.ret = _memrchr_s_chk(Q.dest, Q.dmax, Q.ch, Q.out, Q.destbos))
QA(strfirstchar_s, Q.ret = _strfirstchar_s_chk((char *)Q.dest, Q.dmax, (char)Q.ch, Q.out, Q.destbos))
QA(strlastchar_s,  Q.ret = _strlastchar_s_chk((char *)Q.dest, Q.dmax, (char)Q.ch, Q.out, Q.destbos))
QA(strfirstdiff_s, Q.ret = _strfirstdiff_s_chk(Q.dest, Q.dmax, Q.src, Q.out, Q.destbos))
QA(strlastdiff_s,  Q.ret = _strlastdiff_s_chk(Q.dest, Q.dmax, Q.src, Q.out, Q.destbos))
QA(strfirstsame_s, Q.ret = _strfirstsame_s_chk(Q.dest, Q.dmax, Q.src, Q.out, Q.destbos))
QA(strlastsame_s,  Q.ret = _strlastsame_s_chk(Q.dest, Q.dmax, Q.src, Q.out, Q.destbos))
QA(strnlen_s,     Q.ret = (long)_strnlen_s_chk(Q.dest, Q.dmax, Q.destbos))
QA(wcsnlen_s,     Q.ret = (long)_wcsnlen_s_chk(Q.dest, Q.dmax, Q.destbos))
QA(strisalphanumeric_s, Q.ret = _strisalphanumeric_s_chk(Q.dest, Q.dmax, Q.destbos))
QA(strisascii_s,     Q.ret = _strisascii_s_chk(Q.dest, Q.dmax, Q.destbos))
QA(strisdigit_s,     Q.ret = _strisdigit_s_chk(Q.dest, Q.dmax, Q.destbos))
QA(strishex_s,       Q.ret = _strishex_s_chk(Q.dest, Q.dmax, Q.destbos))
QA(strislowercase_s, Q.ret = _strislowercase_s_chk(Q.dest, Q.dmax, Q.destbos))
QA(strisuppercase_s, Q.ret = _strisuppercase_s_chk(Q.dest, Q.dmax, Q.destbos))
QA(strismixedcase_s, Q.ret = _strismixedcase_s_chk(Q.dest, Q.dmax, Q.destbos))
QA(strispassword_s,  Q.ret = _strispassword_s_chk(Q.dest, Q.dmax, Q.destbos))

/* ------------------------------------------------------------------ reference models (on code-unit arrays) */
static int sgn(long x) { return x < 0 ? -1 : x > 0; }
static uint32_t up(uint32_t c) { return (c >= 'a' && c <= 'z') ? c - 32 : c; }
#define REF(n) static void r_##n(const uint32_t *d, size_t dn, const uint32_t *s, size_t sn, qexp *e)
REF(cmp)  { size_t i; for (i = 0; i < dn && i < sn && d[i] == s[i]; i++); long a = i < dn ? (long)d[i] : 0, b = i < sn ? (long)s[i] : 0; e->status = EOK; e->val = sgn(a - b); }
REF(casecmp) { size_t i; for (i = 0; i < dn && i < sn && up(d[i]) == up(s[i]); i++); long a = i < dn ? (long)up(d[i]) : 0, b = i < sn ? (long)up(s[i]) : 0; e->status = EOK; e->val = sgn(a - b); }
REF(wcmp) { size_t i; for (i = 0; i < dn && i < sn && d[i] == s[i]; i++); long a = i < dn ? (long)(int32_t)d[i] : 0, b = i < sn ? (long)(int32_t)s[i] : 0; e->status = EOK; e->val = sgn(a - b); }
REF(wicmp) { size_t i; for (i = 0; i < dn && i < sn && towlower(d[i]) == towlower(s[i]); i++); long a = i < dn ? (long)towlower(d[i]) : 0, b = i < sn ? (long)towlower(s[i]) : 0; e->status = EOK; e->val = sgn(a - b); }
static int g_fold;
/* natural order on strings whose digit runs have no leading zero and that contain no blanks: digit runs compare by value (longer run = larger,
 * equal length = first differing digit), everything else by character code (after optional case folding); the end of a string sorts first */
static int nat_ref(const uint32_t *a, size_t an, const uint32_t *b, size_t bn, int fold) {
    size_t i = 0, j = 0;
    for (;;) {
        uint32_t ca = i < an ? a[i] : 0, cb = j < bn ? b[j] : 0;
        if (ca >= '0' && ca <= '9' && cb >= '0' && cb <= '9') {
            size_t i2 = i, j2 = j; while (i2 < an && a[i2] >= '0' && a[i2] <= '9') i2++; while (j2 < bn && b[j2] >= '0' && b[j2] <= '9') j2++;
            if (i2 - i != j2 - j) return i2 - i < j2 - j ? -1 : 1;
            for (size_t k = 0; k < i2 - i; k++) if (a[i + k] != b[j + k]) return a[i + k] < b[j + k] ? -1 : 1;
            i = i2; j = j2; continue;
        }
        if (!ca && !cb) return 0;
        if (fold) { ca = up(ca); cb = up(cb); }
        if (ca != cb) return ca < cb ? -1 : 1;
        i++; j++;
    }
}
REF(natcmp) { /* only what any order must satisfy: equal strings (after optional case folding) compare 0, different strings do not */
    int eq = dn == sn; for (size_t i = 0; eq && i < dn; i++) if (g_fold ? (up(d[i]) != up(s[i])) : (d[i] != s[i])) eq = 0; e->status = EOK; e->val = eq ? 0 : nat_ref(d, dn, s, sn, g_fold);
    for (size_t i = 0; i < dn; i++) if (d[i] == ' ' || d[i] == '0') e->skip = 1;   /* natural order skips blanks / leading zeros: not an equality question */
    for (size_t i = 0; i < sn; i++) if (s[i] == ' ' || s[i] == '0') e->skip = 1; }
REF(memcmpx) { size_t i; (void)dn; for (i = 0; i < sn && d[i] == s[i]; i++); e->status = EOK; e->val = i < sn ? sgn((long)d[i] - (long)s[i]) : 0; }
REF(wmemcmpx) { size_t i; (void)dn; for (i = 0; i < sn && d[i] == s[i]; i++); e->status = EOK; e->val = i < sn ? sgn((long)(int32_t)d[i] - (long)(int32_t)s[i]) : 0; }
static long find_sub(const uint32_t *d, size_t dn, const uint32_t *s, size_t sn, int fold) {
    if (sn > dn) return -1;
    for (size_t i = 0; i + sn <= dn; i++) { size_t j; for (j = 0; j < sn; j++) if ((fold ? up(d[i + j]) : d[i + j]) != (fold ? up(s[j]) : s[j])) break; if (j == sn) return (long)i; }
    return -1;
}
REF(strstr)     { long p = find_sub(d, dn, s, sn, 0); e->status = p < 0 ? ESNOTFND : EOK; e->val = p; }
REF(strcasestr) { long p = find_sub(d, dn, s, sn, 1); e->status = p < 0 ? ESNOTFND : EOK; e->val = p; if (sn == 0) e->skip = 1; }
static int inset(uint32_t c, const uint32_t *s, size_t sn) { for (size_t i = 0; i < sn; i++) if (s[i] == c) return 1; return 0; }
REF(strpbrk) { size_t i; for (i = 0; i < dn; i++) if (inset(d[i], s, sn)) break; e->status = i < dn ? EOK : ESNOTFND; e->val = (long)i; if (sn == 0 || dn == 0) e->skip = 1; }
REF(strspn)  { size_t i; for (i = 0; i < dn; i++) if (!inset(d[i], s, sn)) break; e->status = EOK; e->val = (long)i; if (sn == 0) e->skip = 1; }
REF(strcspn) { size_t i; for (i = 0; i < dn; i++) if (inset(d[i], s, sn)) break; e->status = EOK; e->val = (long)i; if (sn == 0) e->skip = 1; }
REF(strprefix) { int ok = sn <= dn; for (size_t i = 0; ok && i < sn; i++) if (d[i] != s[i]) ok = 0; e->status = ok ? EOK : ESNOTFND; if (sn == 0) e->skip = 1; }
REF(firstdiff) { size_t i, n = dn < sn ? dn : sn; for (i = 0; i < n; i++) if (d[i] != s[i]) break; e->status = i < n ? EOK : ESNODIFF; e->val = (long)i; if (i == n && dn != sn) e->skip = 1; /* "scanning stops at the first null in dest or src" */ }
REF(lastdiff)  { size_t i, n = dn < sn ? dn : sn; long last = -1; for (i = 0; i < n; i++) if (d[i] != s[i]) last = (long)i; e->status = last >= 0 ? EOK : ESNODIFF; e->val = last; if (last < 0 && dn != sn) e->skip = 1; }
REF(firstsame) { size_t i, n = dn < sn ? dn : sn; for (i = 0; i < n; i++) if (d[i] == s[i]) break; e->status = i < n ? EOK : ESNOTFND; e->val = (long)i; }
REF(lastsame)  { size_t i, n = dn < sn ? dn : sn; long last = -1; for (i = 0; i < n; i++) if (d[i] == s[i]) last = (long)i; e->status = last >= 0 ? EOK : ESNOTFND; e->val = last; }
REF(len) { (void)s; (void)sn; (void)d; e->status = EOK; e->val = (long)dn; }
/* character searches: s[0] carries the character */
REF(chr)  { size_t i; uint32_t c = s[0]; (void)sn; for (i = 0; i < dn; i++) if (d[i] == c) break; if (c == 0) { e->status = EOK; e->val = (long)dn; } else { e->status = i < dn ? EOK : ESNOTFND; e->val = (long)i; } }
REF(rchr) { long last = -1; uint32_t c = s[0]; (void)sn; for (size_t i = 0; i < dn; i++) if (d[i] == c) last = (long)i; if (c == 0) { e->status = EOK; e->val = (long)dn; } else { e->status = last >= 0 ? EOK : ESNOTFND; e->val = last; } if (dn == 0) e->skip = 1; /* "ESZEROL when strnlen_s = 0" */ }
REF(firstchar) { size_t i; uint32_t c = s[0] & 0xff; (void)sn; for (i = 0; i < dn; i++) if (d[i] == c) break; e->status = i < dn ? EOK : ESNOTFND; e->val = (long)i; if (c == 0) e->skip = 1; }
REF(lastchar)  { long last = -1; uint32_t c = s[0] & 0xff; (void)sn; for (size_t i = 0; i < dn; i++) if (d[i] == c) last = (long)i; e->status = last >= 0 ? EOK : ESNOTFND; e->val = last; if (c == 0) e->skip = 1; }
REF(mchr)  { size_t i; uint32_t c = s[0] & 0xff; (void)sn; for (i = 0; i < dn; i++) if (d[i] == c) break; e->status = i < dn ? EOK : ESNOTFND; e->val = (long)i; }
REF(mrchr) { long last = -1; uint32_t c = s[0] & 0xff; (void)sn; for (size_t i = 0; i < dn; i++) if (d[i] == c) last = (long)i; e->status = last >= 0 ? EOK : ESNOTFND; e->val = last; }
/* predicates: empty string is documented/implemented as false ("entire string ..."): left open */
#define PRED(n, cond) REF(n) { (void)s; (void)sn; int ok = 1; for (size_t i = 0; i < dn; i++) { uint32_t c = d[i]; if (!(cond)) ok = 0; } e->status = EOK; e->val = ok; if (dn == 0) e->skip = 1; }
PRED(alnum, (c >= '0' && c <= '9') || (c >= 'a' && c <= 'z') || (c >= 'A' && c <= 'Z'))
PRED(ascii, c < 128)
PRED(digit, c >= '0' && c <= '9')
PRED(hex, (c >= '0' && c <= '9') || (c >= 'a' && c <= 'f') || (c >= 'A' && c <= 'F'))
PRED(lower, c >= 'a' && c <= 'z')
PRED(upper, c >= 'A' && c <= 'Z')
REF(mixed) { (void)s; (void)sn; int ok = 1; for (size_t i = 0; i < dn; i++) { uint32_t c = d[i]; if (!((c >= 'a' && c <= 'z') || (c >= 'A' && c <= 'Z'))) ok = 0; } e->status = EOK; e->val = ok; e->skip = 1; /* "mixed case": whether both cases must occur is not stated */ if (!ok && dn) { e->skip = 0; } }
REF(password) { (void)s; (void)sn; int lo = 0, upc = 0, nu = 0, sp = 0, other = 0; for (size_t i = 0; i < dn; i++) { uint32_t c = d[i]; if (c >= 'a' && c <= 'z') lo++; else if (c >= 'A' && c <= 'Z') upc++; else if (c >= '0' && c <= '9') nu++; else if ((c >= 33 && c <= 47) || (c >= 58 && c <= 64) || (c >= 91 && c <= 96) || (c >= 123 && c <= 126)) sp++; else other++; }
    e->status = EOK; e->val = dn >= 6 && dn <= 32 && lo >= 2 && upc >= 2 && nu >= 1 && sp >= 1 && !other; if (other) e->skip = 1; }

#define SL RSIZE_MAX_STR
#define WL (RSIZE_MAX_STR / 4)
#define ML RSIZE_MAX_MEM
static const qdesc QD[] = {
    {"strcmp_s",      1, RK_SIGN, QF_SRC | QF_SRCBOS, SL, c_strcmp_s, r_cmp},
    {"strcasecmp_s",  1, RK_SIGN, QF_SRC, SL, c_strcasecmp_s, r_casecmp},
    {"strnatcmp_s",   1, RK_SIGN, QF_SRC | QF_FOLD | QF_SRCBOS, SL, c_strnatcmp_s, r_natcmp},
    {"strcmpfld_s",   1, RK_SIGN, QF_SRC | QF_MEM, SL, c_strcmpfld_s, r_memcmpx},
    {"strcoll_s",     1, RK_SIGN, QF_SRC, SL, c_strcoll_s, r_cmp},
    {"memcmp_s",      1, RK_SIGN, QF_SRC | QF_SLEN | QF_MEM | QF_SRCBOS, ML, c_memcmp_s, r_memcmpx},
    {"memcmp16_s",    2, RK_SIGN, QF_SRC | QF_SLEN | QF_MEM | QF_SRCBOS, ML / 2, c_memcmp16_s, r_memcmpx},
    {"memcmp32_s",    4, RK_SIGN, QF_SRC | QF_SLEN | QF_MEM | QF_SRCBOS, ML / 4, c_memcmp32_s, r_memcmpx},
    {"wmemcmp_s",     4, RK_SIGN, QF_SRC | QF_SLEN | QF_MEM | QF_WIDE | QF_SRCBOS, ML / 4, c_wmemcmp_s, r_wmemcmpx},
    {"wcscmp_s",      4, RK_SIGN, QF_SRC | QF_SLEN | QF_WIDE | QF_SRCBOS, WL, c_wcscmp_s, r_wcmp},
    {"wcsncmp_s",     4, RK_SIGN, QF_SRC | QF_SLEN | QF_WIDE | QF_CNT | QF_SRCBOS, WL, c_wcsncmp_s, r_wcmp},
    {"wcsicmp_s",     4, RK_SIGN, QF_SRC | QF_SLEN | QF_WIDE | QF_SRCBOS, WL, c_wcsicmp_s, r_wicmp},
    {"wcsnatcmp_s",   4, RK_SIGN, QF_SRC | QF_SLEN | QF_WIDE | QF_FOLD | QF_SRCBOS, WL, c_wcsnatcmp_s, r_natcmp},
    {"wcscoll_s",     4, RK_SIGN, QF_SRC | QF_SLEN | QF_WIDE | QF_SRCBOS, WL, c_wcscoll_s, r_wcmp},
    {"strstr_s",      1, RK_PTR, QF_SRC | QF_SLEN | QF_SRCBOS, SL, c_strstr_s, r_strstr},
    {"strcasestr_s",  1, RK_PTR, QF_SRC | QF_SLEN | QF_SRCBOS, SL, c_strcasestr_s, r_strcasestr},
    {"wcsstr_s",      4, RK_PTR, QF_SRC | QF_SLEN | QF_WIDE | QF_SRCBOS, WL, c_wcsstr_s, r_strstr},
    {"strpbrk_s",     1, RK_PTR, QF_SRC | QF_SLEN | QF_SRCBOS, SL, c_strpbrk_s, r_strpbrk},
    {"strspn_s",      1, RK_COUNT, QF_SRC | QF_SLEN | QF_SRCBOS, SL, c_strspn_s, r_strspn},
    {"strcspn_s",     1, RK_COUNT, QF_SRC | QF_SLEN | QF_SRCBOS, SL, c_strcspn_s, r_strcspn},
    {"strprefix_s",   1, RK_STATUS, QF_SRC | QF_NOOUT, SL, c_strprefix_s, r_strprefix},
    {"strchr_s",      1, RK_PTR, QF_CH, SL, c_strchr_s, r_chr},
    {"strrchr_s",     1, RK_PTR, QF_CH, SL, c_strrchr_s, r_rchr},
    {"memchr_s",      1, RK_PTR, QF_CH | QF_MEM, ML, c_memchr_s, r_mchr},
    {"memrchr_s",     1, RK_PTR, QF_CH | QF_MEM, ML, c_memrchr_s, r_mrchr},
    {"strfirstchar_s", 1, RK_PTR, QF_CH, SL, c_strfirstchar_s, r_firstchar},
    {"strlastchar_s",  1, RK_PTR, QF_CH, SL, c_strlastchar_s, r_lastchar},
    {"strfirstdiff_s", 1, RK_COUNT, QF_SRC, SL, c_strfirstdiff_s, r_firstdiff},
    {"strlastdiff_s",  1, RK_COUNT, QF_SRC, SL, c_strlastdiff_s, r_lastdiff},
    {"strfirstsame_s", 1, RK_COUNT, QF_SRC, SL, c_strfirstsame_s, r_firstsame},
    {"strlastsame_s",  1, RK_COUNT, QF_SRC, SL, c_strlastsame_s, r_lastsame},
    {"strnlen_s",     1, RK_LEN, QF_NOOUT, SL, c_strnlen_s, r_len},
    {"wcsnlen_s",     4, RK_LEN, QF_NOOUT | QF_WIDE, WL, c_wcsnlen_s, r_len},
    {"strisalphanumeric_s", 1, RK_BOOL, QF_NOOUT, SL, c_strisalphanumeric_s, r_alnum},
    {"strisascii_s",     1, RK_BOOL, QF_NOOUT, SL, c_strisascii_s, r_ascii},
    {"strisdigit_s",     1, RK_BOOL, QF_NOOUT, SL, c_strisdigit_s, r_digit},
    {"strishex_s",       1, RK_BOOL, QF_NOOUT, SL, c_strishex_s, r_hex},
    {"strislowercase_s", 1, RK_BOOL, QF_NOOUT, SL, c_strislowercase_s, r_lower},
    {"strisuppercase_s", 1, RK_BOOL, QF_NOOUT, SL, c_strisuppercase_s, r_upper},
    {"strismixedcase_s", 1, RK_BOOL, QF_NOOUT, SL, c_strismixedcase_s, r_mixed},
    {"strispassword_s",  1, RK_BOOL, QF_NOOUT, SL, c_strispassword_s, r_password},
};
#define NQ ((int)(sizeof QD / sizeof QD[0]))

/* ------------------------------------------------------------------ scenario */
typedef struct {
    uint32_t d[40], s[40]; size_t dl, sl;     /* operand contents (code units), lengths */
    size_t dmax;    /* declared elements */
    int dterm;      /* terminator present in dest object */
    size_t slen; int sterm;
    int ch; size_t count; int fold;
    int bos; int dplace; int viol;            /* viol: 0 none, else constraint scenario id */
    int dnull, snull, onull;
    int dobj_full;  /* object holds the complete string although dmax is smaller */
    int salias;     /* src is the very same pointer as dest */
    int dobj_short; /* known object of dl(+1) elements although dmax is larger (length functions: 'at most the first smax or sizeof(str) characters are accessed') */
} qscn;

static void put(void *p, size_t i, int ew, uint32_t v) { if (ew == 1) ((uint8_t *)p)[i] = (uint8_t)v; else if (ew == 2) ((uint16_t *)p)[i] = (uint16_t)v; else ((uint32_t *)p)[i] = v; }
static uint32_t get(const void *p, size_t i, int ew) { return ew == 1 ? ((const uint8_t *)p)[i] : ew == 2 ? ((const uint16_t *)p)[i] : ((const uint32_t *)p)[i]; }

static char g_wit[1600];
static void qwitness(const qdesc *q, const qscn *s, long idx, const char *obs) {
    char ds[200] = "", ss[200] = "";
    for (size_t i = 0; i < s->dl && i < 24; i++) sb_add(ds, sizeof ds, "%x ", s->d[i]);
    for (size_t i = 0; i < s->sl && i < 24; i++) sb_add(ss, sizeof ss, "%x ", s->s[i]);
    g_wit[0] = 0;
    sb_add(g_wit, sizeof g_wit, "{\"harness\":\"queries\",\"cfg\":\"%s\",\"fn\":\"%s\",\"idx\":%ld,\"seed\":%llu,\"dest\":\"%s\",\"destlen\":%zu,\"dmax\":%zu,\"dterm\":%d,"
           "\"src\":\"%s\",\"srclen\":%zu,\"slen\":%zu,\"sterm\":%d,\"ch\":%d,\"count\":%zu,\"fold\":%d,\"bos\":%d,\"dplace\":%d,\"viol\":%d,\"ret\":\"%s\",\"hcount\":%d,\"hcode\":\"%s\",\"obs\":\"%s\","
           "\"replay\":\"queries --cfg %s --fn %s --idx %ld --seed %llu --tier %s\"}",
           g_cfg, q->name, idx, (unsigned long long)g_seed, ds, s->dl, s->dmax, s->dterm, ss, s->sl, s->slen, s->sterm, s->ch, s->count, s->fold, s->bos, s->dplace, s->viol,
           errname(Q.ret), g_h.count, g_h.count ? errname(g_h.code[0]) : "-", obs, g_cfg, q->name, idx, (unsigned long long)g_seed, g_tier ? "thorough" : "quick");
}

enum { K_CALLS, K_C10, K_C02, K_C05, K_C01, K_RF, K_WF, K_DEATH, K_NUM };
static const char *KN[] = {"calls", "c10_decided", "c02_decided", "c05_decided", "c01_decided", "read_faults", "write_faults", "worker_deaths"};
static unsigned long long K[K_NUM];
static int g_samples;
static const char *g_changed_where;

static void run_case(const qdesc *q, qscn *s, long idx) {
    int ew = q->ew;
    uint8_t outsz = q->rk == RK_SIGN ? sizeof(int) : sizeof(void *);
    /* --- materialise operands: dest in slot 0 (end- or begin-flush), src in slot 1 end-flush, out in slot 2 */
    size_t dobj_el = s->dmax ? s->dmax : 1, sobj_el;
    if (s->dobj_full) dobj_el = s->dl + 1;               /* dmax below the string length: the whole terminated string is in the object */
    if (s->dobj_short) dobj_el = s->dl + (s->dterm ? 1 : 0);
    if (s->viol == 4) dobj_el = s->dmax - 1;
    if (s->viol == 3) dobj_el = 4;                       /* dmax above the limit: operand of 4 elements, see below */
    uint8_t *dobj = s->dplace ? place_begin(0) : place_end(0, dobj_el * ew);
    memset(dobj - (s->dplace ? 0 : 32), CANARY, s->dplace ? 0 : 32);
    for (size_t i = 0; i < dobj_el; i++) put(dobj, i, ew, i < s->dl ? s->d[i] : (i == s->dl && s->dterm) ? 0 : 0x71 + (uint32_t)(i % 5));
    if (s->dplace) memset(dobj + dobj_el * ew, CANARY, 32);
    uint8_t *sobj = NULL; size_t sobj_b = 0;
    memset(&Q, 0, sizeof Q);
    if (q->fl & QF_SRC) {
        if (q->fl & QF_MEM) sobj_el = (q->fl & QF_SLEN) ? (s->slen ? (s->slen > 64 ? 4 : s->slen) : 1) : dobj_el;
        else sobj_el = s->sterm ? s->sl + 1 : (s->slen ? s->slen : 1);
        sobj_b = sobj_el * ew; sobj = place_end(1, sobj_b);
        memset(sobj - 32, CANARY, 32);
        for (size_t i = 0; i < sobj_el; i++) put(sobj, i, ew, i < s->sl ? s->s[i] : (i == s->sl && s->sterm && !(q->fl & QF_MEM)) ? 0 : 0x75 + (uint32_t)(i % 3));
        if (s->salias) { sobj = dobj; sobj_b = dobj_el * ew; }
    }
    void *out = place_end(2, outsz); memset((uint8_t *)out - 32, CANARY, 32); memset(out, 0x5a, outsz);
    Q.dest = s->dnull ? NULL : dobj; Q.dmax = s->dmax; Q.destbos = s->bos ? dobj_el * ew : BOS_UNKNOWN;
    if (s->viol == 3) { Q.dmax = q->limit + 1; Q.dest = s->bos ? (void *)dobj : (void *)(slot_end(0) + 128); }   /* unknown size: operand in unmapped memory */
    Q.src = s->snull ? NULL : s->salias ? Q.dest : (void *)sobj; Q.slen = s->slen; Q.srcbos = (s->bos && (q->fl & QF_SRCBOS)) ? sobj_b : BOS_UNKNOWN;
    Q.count = s->count; Q.ch = s->ch; Q.fold = s->fold; Q.out = s->onull ? NULL : out;
    Q.ret = -999;
    probes_reset();
    g_shm->in_call = 1; g_cur_fn = q->name; FENCED(q->call()); g_shm->in_call = 0;
    K[K_CALLS]++;
    char key[320], what[520], obs[240];
    const char *bosn = s->bos ? "bos=exact" : "bos=unknown";
    /* ---- fence events */
    if (g_fence.faulted) {
        uintptr_t a = g_fence.addr; const char *where = "elsewhere";
        if (s->viol == 3 && !s->bos && a >= (uintptr_t)slot_end(0) && a < (uintptr_t)slot_end(0) + PAGE) where = "dest-touched-although-dmax-above-limit";
        else if (a >= (uintptr_t)dobj + dobj_el * ew && a < (uintptr_t)dobj + dobj_el * ew + PAGE) where = "dest+end";
        else if (a < (uintptr_t)dobj && a + PAGE >= (uintptr_t)dobj) where = "dest-start";
        else if (sobj && a >= (uintptr_t)sobj + sobj_b && a < (uintptr_t)sobj + sobj_b + PAGE) where = "src+end";
        else if (a >= (uintptr_t)out + outsz && a < (uintptr_t)out + outsz + PAGE) where = "out+end";
        else if (a < 65536) where = "near-null";
        long off = !strcmp(where, "dest+end") ? (long)(a - ((uintptr_t)dobj + dobj_el * ew)) : !strcmp(where, "src+end") ? (long)(a - ((uintptr_t)sobj + sobj_b)) : 0;
        snprintf(obs, sizeof obs, "%s fault at %s+%ld", g_fence.is_write ? "WRITE" : "READ", where, off);
        if (g_fence.is_write) K[K_WF]++; else K[K_RF]++;
        if (!strncmp(where, "dest-touched", 12)) {
            if (want("C05")) { snprintf(key, sizeof key, "%s|R6-touched-before-reject|%s", q->name, g_fence.is_write ? "W" : "R"); snprintf(what, sizeof what, "%s: dmax above the RSIZE limit but dest was accessed before the call was rejected", q->name); qwitness(q, s, idx, obs); report("C05", key, what, g_wit); }
        } else if (g_fence.is_write) {
            if (want("C01")) { snprintf(key, sizeof key, "%s|W-fault|%s|%s", q->name, where, bosn); snprintf(what, sizeof what, "%s (a read-only query) stores outside its out-parameter: %s", q->name, obs); qwitness(q, s, idx, obs); report("C01", key, what, g_wit); }
        } else if (want("C02")) {
            snprintf(key, sizeof key, "%s|R-fault|%s+%s|%s|%s", q->name, where, off == 0 ? "0" : off < 4 ? "1..3" : "4..", s->dterm ? "dest-terminated" : "dest-unterminated", bosn);
            snprintf(what, sizeof what, "%s reads outside the declared extents: %s (dest %s within dmax=%zu%s)", q->name, obs, s->dterm ? "terminated" : "unterminated", s->dmax, sobj ? (s->sterm ? ", src terminated" : ", src unterminated") : "");
            qwitness(q, s, idx, obs); report("C02", key, what, g_wit);
        }
        distinct_add(hash_str(q->name) ^ mix64((uint64_t)(g_fence.is_write * 3 + 1) * 977 + s->dterm * 31 + s->sterm * 7 + s->bos));
        return;
    }
    K[K_C02]++;
    /* ---- operands unchanged (C10 "never modify their operands", C01) */
    K[K_C01]++;
    {
        int changed = 0; const char *wh = "";
        for (size_t i = 0; i < dobj_el && !changed; i++) { uint32_t w = i < s->dl ? s->d[i] : (i == s->dl && s->dterm) ? 0 : 0x71 + (uint32_t)(i % 5); if (get(dobj, i, ew) != w) { changed = 1; wh = "dest"; } }
        if (!changed && sobj && !s->salias) for (size_t i = 0; i < sobj_b / ew && !changed; i++) { uint32_t w = i < s->sl ? s->s[i] : (i == s->sl && s->sterm && !(q->fl & QF_MEM)) ? 0 : 0x75 + (uint32_t)(i % 3); if (get(sobj, i, ew) != w) { changed = 1; wh = "src"; } }
        if (!changed) { const uint8_t *c = (uint8_t *)out - 32; for (int i = 0; i < 32; i++) if (c[i] != CANARY) { changed = 1; wh = "before-out-param"; } }
        if (!changed && !s->dplace) { const uint8_t *c = dobj - 32; for (int i = 0; i < 32; i++) if (c[i] != CANARY) { changed = 1; wh = "before-dest"; } }
        if (!changed && sobj && !s->salias) { const uint8_t *c = sobj - 32; for (int i = 0; i < 32; i++) if (c[i] != CANARY) { changed = 1; wh = "before-src"; } }
        g_changed_where = changed ? wh : NULL;
    }
    /* ---- classify */
    int hc = g_h.count;
    int notfound = (Q.ret == ESNOTFND || Q.ret == ESNODIFF);
    int answered = (q->rk == RK_BOOL || q->rk == RK_LEN) ? hc == 0 : (Q.ret == EOK || notfound);
    unsigned v = 0;
    if (s->dnull) v |= 1; if (s->dmax == 0) v |= 2; if (s->viol == 3) v |= 4; if (s->viol == 4) v |= 2048;
    if ((q->fl & QF_SRC) && s->snull) v |= 8;
    if (!(q->fl & QF_NOOUT) && s->onull) v |= 16;
    if ((q->fl & QF_SLEN) && s->slen == 0 && !(!strcmp(q->name, "strstr_s") || !strcmp(q->name, "wcsstr_s"))) v |= 32;
    if ((q->fl & QF_SLEN) && s->slen > q->limit) v |= 64;
    if ((q->fl & QF_SLEN) && (q->fl & QF_SRCBOS) && s->bos && sobj && s->slen * ew > sobj_b) v |= 256;   /* "slen shall not be greater than ... size of src" */
    if (!strcmp(q->name, "strispassword_s") && (s->dmax > 32 || s->dmax < 6)) v |= 512;                   /* documented dmax window */
    if ((q->fl & QF_MEM) && (q->fl & QF_SLEN) && s->slen > s->dmax) v |= 1024;                             /* ESNOSPC documented */
    int len_null = (q->rk == RK_LEN && s->dnull);
    if (q->rk == RK_LEN) v &= ~1u;                                                                         /* "If str is NULL, returns 0" */
    if ((q->fl & QF_CH) && s->ch > 255 && strcmp(q->name, "strfirstchar_s") && strcmp(q->name, "strlastchar_s")) v |= 128;
    if ((!strcmp(q->name, "strstr_s") || !strcmp(q->name, "wcsstr_s")) && s->sl == 0) v &= ~256u;   /* empty needle: answered before the size checks, left open */
    if (g_changed_where) {
        snprintf(obs, sizeof obs, "%s bytes changed (ret=%s)", g_changed_where, errname(Q.ret));
        /* dest[0..dmax) of a query is still the caller's declared destination: C01 is about everything else;
           C10's "never modify their operands" speaks about valid operands */
        if (strcmp(g_changed_where, "dest") && want("C01")) { snprintf(key, sizeof key, "%s|operand-modified|%s", q->name, g_changed_where); snprintf(what, sizeof what, "%s (a read-only query) modified memory outside dest: %s", q->name, obs); qwitness(q, s, idx, obs); report("C01", key, what, g_wit); }
        if (v == 0 && want("C10")) { snprintf(key, sizeof key, "%s|operand-modified|%s|ret=%s", q->name, g_changed_where, errname(Q.ret)); snprintf(what, sizeof what, "%s modified its operand although the call violates nothing: %s", q->name, obs); qwitness(q, s, idx, obs); report("C10", key, what, g_wit); }
    }
    /* ---- C05 */
    K[K_C05]++;
    {
        const char *rule = NULL; char det[120] = "";
        if (hc > 1) { rule = "R1-handler-invoked-more-than-once"; snprintf(det, sizeof det, "n=%d,%s,%s", hc, errname(g_h.code[0]), errname(g_h.code[1])); }
        else if ((q->rk != RK_BOOL && q->rk != RK_LEN) && hc == 1 && g_h.code[0] != Q.ret) { rule = "R2-handler-code-differs-from-returned-code"; snprintf(det, sizeof det, "handler=%s,returned=%s", errname(g_h.code[0]), errname(Q.ret)); }
        else if ((q->rk != RK_BOOL && q->rk != RK_LEN) && hc == 0 && Q.ret != EOK && !notfound) { rule = "R3-failure-returned-without-handler"; snprintf(det, sizeof det, "returned=%s", errname(Q.ret)); }
        else if ((q->rk == RK_BOOL || q->rk == RK_LEN) && hc == 1 && Q.ret != 0) { rule = "R2b-handler-invoked-but-result-not-failure"; snprintf(det, sizeof det, "handler=%s,returned=%ld", errname(g_h.code[0]), Q.ret); }
        else if (len_null) { /* "If str is NULL, returns 0": with or without handler */ }
        else if (v && hc == 0) { rule = "R5-violation-not-reported"; snprintf(det, sizeof det, "violated=%#x,returned=%s", v, (q->rk == RK_BOOL || q->rk == RK_LEN) ? "value" : errname(Q.ret)); }
        else if (hc == 1 && notfound) { rule = "R4b-handler-invoked-for-plain-not-found"; snprintf(det, sizeof det, "returned=%s", errname(Q.ret)); }
        if (rule && want("C05")) {
            snprintf(key, sizeof key, "%s|%s|%s|%s", q->name, rule, det, bosn);
            snprintf(obs, sizeof obs, "ret=%s handler_calls=%d code0=%s msg0=%.60s violated=%#x", errname(Q.ret), hc, hc ? errname(g_h.code[0]) : "-", hc ? g_h.msg[0] : "", v);
            snprintf(what, sizeof what, "%s: %s (%s)", q->name, rule, obs); qwitness(q, s, idx, obs); report("C05", key, what, g_wit);
        }
    }
    if (len_null) return;
    if ((!strcmp(q->name, "strstr_s") || !strcmp(q->name, "wcsstr_s")) && s->sl == 0 && s->bos && sobj && s->slen * ew > sobj_b) return;   /* left open */
    if (v || (!strcmp(q->name, "strispassword_s") && (s->dmax > 32 || s->dmax < 6))) { distinct_add(hash_str(q->name) ^ mix64(v * 131 + (uint64_t)(Q.ret & 0xfff))); return; }
    /* ---- C10 */
    {
        /* bounded private copies: dest truncated at min(strlen, dmax); src truncated at min(strlen, slen) */
        uint32_t dcp[48], scp[48]; size_t dn, sn = 0; qexp e; memset(&e, 0, sizeof e);
        if (q->fl & QF_MEM) { dn = s->dmax; for (size_t i = 0; i < dn; i++) dcp[i] = get(dobj, i, ew); }
        else { dn = s->dl < s->dmax ? s->dl : s->dmax; memcpy(dcp, s->d, dn * sizeof *dcp); }
        if (q->fl & QF_SRC) {
            if (q->fl & QF_MEM) { sn = (q->fl & QF_SLEN) ? s->slen : s->dmax; for (size_t i = 0; i < sn; i++) scp[i] = get(sobj, i, ew); }
            else { sn = s->sl; if ((q->fl & QF_SLEN) && s->slen < sn) sn = s->slen; memcpy(scp, s->s, sn * sizeof *scp); }
        } else if (q->fl & QF_CH) { scp[0] = (uint32_t)s->ch; sn = 1; }
        if ((q->fl & QF_CNT)) { if (s->count < dn) dn = s->count; if (s->count < sn) sn = s->count; }
        int valid_ops = (q->fl & QF_MEM) ? 1 : (s->dterm && s->dl < s->dmax && (!(q->fl & QF_SRC) || (s->sterm && (!(q->fl & QF_SLEN) || s->sl < s->slen))));
        if ((q->fl & QF_MEM) && (q->fl & QF_SLEN) && s->slen > s->dmax) valid_ops = 0;   /* ESNOSPC documented */
        if (q->ref == r_cmp || q->ref == r_casecmp || q->ref == r_wcmp || q->ref == r_wicmp || q->ref == r_strprefix) {
            /* "within the first dmax elements": the comparison looks at no more than dmax (and slen) elements of either operand, like strncmp
             * (the repository's tests pin strcmp_s("keep it simple", 5, "keep it simple") == 0 and strprefix_s("keep it simple", 4, "keep it") == EOK) */
            size_t win = s->dmax; if ((q->fl & QF_SLEN) && s->slen < win) win = s->slen;
            if (dn > win) dn = win; if (sn > win) sn = win;
        }
        g_fold = s->fold;
        q->ref(dcp, dn, scp, sn, &e);
        if ((q->fl & QF_CH) && !(q->fl & QF_MEM) && s->ch == 0 && !(s->dterm && s->dl < s->dmax)) e.skip = 1;   /* no terminator inside dmax to be found */
        if (q->ref == r_natcmp && !valid_ops) e.skip = 1;                                                          /* ESUNTERM documented */
        if (answered && !e.skip) {
            K[K_C10]++;
            long got = 0; int have = 1; const char *rule = NULL;
            switch (q->rk) {
            case RK_SIGN: got = sgn(*(int *)out); if (Q.ret != EOK) have = 0; break;
            case RK_PTR:  { void *p = *(void **)out; got = p ? (long)(((uint8_t *)p - dobj) / ew) : -1; if (Q.ret != EOK) have = 0; } break;
            case RK_COUNT: got = (long)*(rsize_t *)out; if (Q.ret != EOK) have = 0; break;
            case RK_BOOL: got = Q.ret ? 1 : 0; break;
            case RK_LEN:  got = Q.ret; break;
            default: have = 0;
            }
            if (q->rk != RK_BOOL && q->rk != RK_LEN && (int)Q.ret != e.status) rule = "status-differs-from-reference";
            else if (have && q->ref == r_natcmp) { if ((e.val == 0) != (got == 0)) rule = "equality-differs-from-reference"; else if (got != e.val) rule = "sign-differs-from-natural-order"; }
            else if (have && got != e.val) rule = "value-differs-from-reference";
            if (rule && want("C10")) {
                snprintf(key, sizeof key, "%s|%s|%s|%s|want=%s|got=%s", q->name, rule, valid_ops ? "valid-operands" : (s->dterm && s->dl < s->dmax) ? "src-bounded-by-slen" : "dest-bounded-by-dmax",
                         bosn, errname(e.status), errname(Q.ret));
                snprintf(obs, sizeof obs, "returned %s value %ld; reference %s value %ld (dest len %zu dmax %zu, src len %zu slen %zu)", errname(Q.ret), got, errname(e.status), e.val, s->dl, s->dmax, s->sl, s->slen);
                snprintf(what, sizeof what, "%s answers differently from its standard counterpart within the declared bounds: %s", q->name, obs);
                qwitness(q, s, idx, obs); report("C10", key, what, g_wit);
            }
        } else if (!answered && valid_ops && !e.skip && hc && !len_null) {
            /* a constraint violation was reported for operands that violate nothing */
            if (want("C05")) {
                snprintf(key, sizeof key, "%s|R4-valid-call-reported-as-violation|returned=%s|%s", q->name, errname(g_h.code[0]), bosn);
                snprintf(obs, sizeof obs, "ret=%s handler msg=%.70s", errname(Q.ret), g_h.msg[0]);
                snprintf(what, sizeof what, "%s reports a constraint violation for valid operands: %s", q->name, obs); qwitness(q, s, idx, obs); report("C05", key, what, g_wit);
            }
        }
        {   char b[160]; snprintf(b, sizeof b, "%s;dl=%zu;sl=%zu;dt=%d;st=%d;dm-dl=%ld;sn-sl=%ld;b=%d>%ld/%d", q->name, s->dl, s->sl, s->dterm, s->sterm, (long)s->dmax - (long)s->dl, (long)s->slen - (long)s->sl, s->bos, Q.ret, e.status);
            distinct_add(hash_str(b)); }
    }
    if (g_verbose) { qwitness(q, s, idx, "verbose"); printf("%s\n", g_wit); }
    if (g_samples < 5 && idx % 7919 == (long)(g_seed % 7919)) { qwitness(q, s, idx, "sample"); emit_sample(g_wit); g_samples++; }
}

/* ------------------------------------------------------------------ generation */
static const uint32_t ALPHA_N[] = {'a', 'A', 'b', ' ', '0', 0xE9, 'f', 'G', '9', '!'};
static const uint32_t ALPHA_W[] = {'a', 'A', 'b', 0x1F600, '0', 0xE9};
static long g_idx, g_skip_below;
static int pick(long idx) { if (g_only_idx >= 0) return idx == g_only_idx; return idx % g_nw == g_wid && idx >= g_skip_below; }

static void str_from(uint32_t *out, size_t len, unsigned long code, int nsym, const uint32_t *al) { for (size_t i = 0; i < len; i++) { out[i] = al[code % nsym]; code /= nsym; } }
static unsigned long ipow(int b, size_t e) { unsigned long r = 1; while (e--) r *= b; return r; }

static void gen(int qi) {
    const qdesc *q = &QD[qi]; qscn s;
    const uint32_t *al = (q->fl & QF_WIDE) ? ALPHA_W : ALPHA_N;
    int nsym = g_tier ? 4 : 3; size_t maxlen = g_tier ? 4 : 3;
    int two = (q->fl & QF_SRC) != 0;
    g_idx = 0;
    /* pass A: exhaustive small alphabet */
    for (size_t dl = 0; dl <= maxlen; dl++)
    for (unsigned long dc = 0; dc < ipow(nsym, dl); dc++)
    for (size_t sl = 0; sl <= (two ? maxlen : 0); sl++)
    for (unsigned long sc = 0; sc < (two ? ipow(nsym, sl) : 1); sc++)
    for (int dv = 0; dv < 6; dv++)          /* dmax = dl+1 (exact), dl+3, dl (unterminated in dmax), dl-1; 4/5: dmax = dl-1 / dl-2 of a longer terminated string */
    for (int sv = 0; sv < ((q->fl & QF_SLEN) ? 6 : 1); sv++)   /* slen = sl+1, sl (unterminated object), sl-1, sl+4; 4/5: slen = sl-1 / sl-2 of a longer terminated string */
    for (int cv = 0; cv < ((q->fl & QF_CH) ? nsym + 2 : 1); cv++) {
        memset(&s, 0, sizeof s);
        s.dl = dl; s.sl = sl; str_from(s.d, dl, dc, nsym, al); str_from(s.s, sl, sc, nsym, al);
        s.dterm = dv < 2; s.dmax = dv == 0 ? dl + 1 : dv == 1 ? dl + 3 : dv == 2 ? dl : dv == 5 ? dl - 2 : dl - 1;
        if (dv >= 2 && (dl == 0 || s.dmax == 0 || (dv == 3 && dl < 2))) continue;
        if (dv == 5 && dl < 3) continue;
        if (dv >= 4) { if (q->fl & QF_MEM) continue; s.dobj_full = 1; s.dterm = 1; }   /* string longer than dmax, fully present (truthful: dmax elements exist) */
        else if (dv >= 2) s.dl = s.dmax;            /* the object holds exactly dmax non-zero elements */
        s.sterm = 1; s.slen = 0;
        if (q->fl & QF_SLEN) {
            s.slen = sv == 0 ? sl + 1 : sv == 1 ? sl : sv == 2 ? sl - 1 : sv == 3 ? sl + 4 : sv == 4 ? sl - 1 : sl - 2;
            if ((sv == 1 || sv == 2 || sv >= 4) && (sl == 0 || s.slen == 0 || s.slen > sl)) continue;
            if (sv == 1 || sv == 2) { s.sterm = 0; s.sl = s.slen; }
            /* sv >= 4: the source string is longer than slen and fully present (terminated) in its object: only slen elements count */
        }
        if (q->fl & QF_MEM) { /* raw operands: lengths are the operand sizes */
            if (dv >= 2) continue; s.dterm = 0; s.dmax = dl ? dl : 1; if (dl == 0) { s.d[0] = al[0]; s.dl = 1; }
            if (q->fl & QF_SLEN) { if (sv > 1) continue; s.slen = sv == 0 ? (sl ? sl : 1) : s.dmax; if (sl == 0) { s.s[0] = al[1]; s.sl = 1; } if (s.slen > s.sl) { for (size_t i = s.sl; i < s.slen; i++) s.s[i] = al[i % nsym]; s.sl = s.slen; } s.sterm = 0; }
            else if (two) { for (size_t i = s.sl; i < s.dmax; i++) s.s[i] = al[(i + sc) % nsym]; s.sl = s.dmax; }   /* strcmpfld_s: src has dmax elements */
        }
        if (q->fl & QF_CH) s.ch = cv < nsym ? (int)(al[cv] & 0xff) : cv == nsym ? 0 : 'z';
        if (q->fl & QF_CNT) s.count = (dc + sc) % (maxlen + 2);
        if (q->fl & QF_FOLD) s.fold = (int)((dc + sc) & 1);
        for (int bos = 0; bos < 2; bos++) {
            long idx = g_idx++;
            if (!pick(idx)) continue;
            if (!g_tier && two && ((idx / 2) % 3)) continue;      /* quick: a third of the two-operand lattice */
            s.bos = bos; s.dplace = (idx / 2) % 5 == 0;
            g_shm->cur = idx; run_case(q, &s, idx);
        }
    }
    /* pass B: wider alphabet (digits, hex letters, punctuation, high-bit), lengths 0..3 (quick 0..2) for single-operand functions;
       password-shaped strings for strispassword_s */
    if (!two) {
        int ns = (q->fl & QF_WIDE) ? 6 : 10; size_t ml = g_tier ? 3 : 2;
        for (size_t dl = 0; dl <= ml; dl++) for (unsigned long dc = 0; dc < ipow(ns, dl); dc++) for (int dv = 0; dv < 3; dv++) {
            memset(&s, 0, sizeof s); s.dl = dl; str_from(s.d, dl, dc, ns, al);
            s.dterm = dv < 2; s.dmax = dv == 0 ? dl + 1 : dv == 1 ? dl + 2 : dl; if (dv == 2 && dl == 0) continue;
            s.ch = (int)(al[dc % ns] & 0xff); s.sterm = 1;
            if (q->fl & QF_MEM) { s.dterm = 0; s.dmax = dl ? dl : 1; if (!dl) { s.d[0] = al[0]; s.dl = 1; } if (dv) continue; }
            long idx = g_idx++; if (!pick(idx)) continue;
            s.bos = (int)(idx & 1); g_shm->cur = idx; run_case(q, &s, idx);
        }
        if (!strcmp(q->name, "strispassword_s")) {
            static const char *pw[] = {"aaBB1!", "aB1!xx", "aaBB11", "aaBB!!", "AAbb1!zzzz", "aaBB1!aaBB1!aaBB1!aaBB1!aaBB1!aa", "aaBB1!aaBB1!aaBB1!aaBB1!aaBB1!aaX", "aabb1!", "AABB1!", "aB1!", "aaBB1 !"};
            for (unsigned i = 0; i < sizeof pw / sizeof pw[0]; i++) for (int dv = 0; dv < 3; dv++) {
                memset(&s, 0, sizeof s); s.dl = strlen(pw[i]); for (size_t k = 0; k < s.dl; k++) s.d[k] = (uint8_t)pw[i][k];
                s.dterm = dv < 2; s.dmax = dv == 0 ? s.dl + 1 : dv == 1 ? s.dl + 2 : s.dl; s.sterm = 1;
                long idx = g_idx++; if (!pick(idx)) continue; g_shm->cur = idx; run_case(q, &s, idx);
            }
        }
    }
    /* pass E: the length functions with smax above the size of a known object that ends at the fence: "at most the first smax or
       sizeof(str) characters of str are accessed"; the answer is the object's element count when no terminator is inside it */
    if (q->rk == RK_LEN) {
        int ns = (q->fl & QF_WIDE) ? 6 : 10;
        for (size_t dl = 1; dl <= (g_tier ? 40 : 24); dl++) for (int k = 0; k < 5; k++) for (int dt = 0; dt < 2; dt++) {
            static const size_t extra[] = {1, 2, 8, 64, 4000};
            memset(&s, 0, sizeof s); s.dl = dl; if (dl > 38) continue; str_from(s.d, dl, dl * 7 + k, ns, al);
            s.dterm = dt; s.dmax = dl + dt + extra[k]; if (s.dmax > q->limit) s.dmax = q->limit; s.dobj_short = 1; s.sterm = 1; s.bos = 1;
            long idx = g_idx++; if (!pick(idx)) continue; g_shm->cur = idx; run_case(q, &s, idx);
        }
    }
    /* pass F: natural-order comparisons over letters and digits (no leading zeros, no blanks: the part of the order that is unambiguous) */
    if (q->ref == r_natcmp) {
        static const uint32_t NAT[] = {'a', 'B', '1', '2', '9', 'b'};
        size_t ml = g_tier ? ((q->fl & QF_WIDE) ? 3 : 4) : 3;
        for (size_t dl = 0; dl <= ml; dl++) for (unsigned long dc = 0; dc < ipow(6, dl); dc++)
        for (size_t sl = 0; sl <= ml; sl++) for (unsigned long sc = 0; sc < ipow(6, sl); sc++) for (int fold = 0; fold < 2; fold++) {
            long idx = g_idx++; if (!pick(idx)) continue; if (!g_tier && (idx / 2) % 5) continue;
            memset(&s, 0, sizeof s); s.dl = dl; s.sl = sl; str_from(s.d, dl, dc, 6, NAT); str_from(s.s, sl, sc, 6, NAT);
            s.dterm = 1; s.sterm = 1; s.dmax = dl + 1 + (idx % 3); s.slen = (q->fl & QF_SLEN) ? sl + 1 + (idx % 2) : 0; s.fold = fold; s.bos = (int)((idx / 2) & 1);
            g_shm->cur = idx; run_case(q, &s, idx);
            /* the same operands as arrays that exactly fill dmax / slen without a terminator (digit runs end at the fence) */
            if (dl && (idx / 2) % 2 == 0) { qscn u = s; u.dterm = 0; u.dmax = dl; run_case(q, &u, idx); }
            if (sl && (q->fl & QF_SLEN) && (idx / 2) % 2 == 1) { qscn u = s; u.sterm = 0; u.slen = sl; run_case(q, &u, idx); }
        }
    }
    /* pass G: natural-order comparisons with blanks in front of digit runs (the order itself is left open there; the question is what is
       read: an unterminated dest whose digit run ends exactly at dmax, blanks before it) */
    if (q->ref == r_natcmp) {
        static const uint32_t NB[] = {' ', '1', '2', 'a'};
        size_t ml = g_tier ? 5 : 4;
        for (size_t dl = 1; dl <= ml; dl++) for (unsigned long dc = 0; dc < ipow(4, dl); dc++)
        for (size_t sl = 0; sl <= 3; sl++) for (unsigned long sc = 0; sc < ipow(4, sl); sc++) {
            long idx = g_idx++; if (!pick(idx)) continue; if (!g_tier && idx % 3) continue;
            memset(&s, 0, sizeof s); s.dl = dl; s.sl = sl; str_from(s.d, dl, dc, 4, NB); str_from(s.s, sl, sc, 4, NB);
            s.dterm = 0; s.sterm = 1; s.dmax = dl; s.slen = (q->fl & QF_SLEN) ? sl + 1 : 0; s.fold = (int)(idx & 1); s.bos = (int)((idx / 2) & 1);
            g_shm->cur = idx; run_case(q, &s, idx);
            s.dterm = 1; s.dmax = dl + 1; run_case(q, &s, idx);
        }
    }
    /* pass D: longer haystacks with repeated partial matches for the two-operand searches */
    if (two && !(q->fl & QF_MEM) && (q->rk == RK_PTR || q->rk == RK_COUNT || q->rk == RK_STATUS)) {
        size_t hl = g_tier ? 9 : 6;
        for (unsigned long dc = 0; dc < ipow(2, hl); dc++) for (size_t sl = 2; sl <= 4; sl++) for (unsigned long sc = 0; sc < ipow(2, sl); sc++) for (int dv = 0; dv < 3; dv++) {
            memset(&s, 0, sizeof s); s.dl = hl; s.sl = sl; str_from(s.d, hl, dc, 2, al); str_from(s.s, sl, sc, 2, al); s.d[hl - 1] = al[2];
            s.dterm = dv < 2; s.dmax = dv == 0 ? hl + 1 : dv == 1 ? hl + 4 : hl - 1; if (dv == 2) { s.dobj_full = 1; s.dterm = 1; }
            s.sterm = 1; s.slen = (q->fl & QF_SLEN) ? sl + 1 : 0; s.count = sl; s.fold = 0;
            long idx = g_idx++; if (!pick(idx)) continue; if (!g_tier && (idx % 2)) continue;
            s.bos = (int)(idx & 1); g_shm->cur = idx; run_case(q, &s, idx);
        }
    }
    /* pass C: constraint combinations */
    for (int dnull = 0; dnull < 2; dnull++) for (int dm = 0; dm < 4; dm++) for (int snull = 0; snull < 2; snull++) for (int onull = 0; onull < 2; onull++)
    for (int sl = 0; sl < 3; sl++) for (int chv = 0; chv < 2; chv++) for (int bos = 0; bos < 2; bos++) {
        if (!(q->fl & QF_SRC) && snull) continue; if ((q->fl & QF_NOOUT) && onull) continue; if (!(q->fl & QF_SLEN) && sl) continue; if (!(q->fl & QF_CH) && chv) continue;
        memset(&s, 0, sizeof s); s.dl = 2; s.d[0] = 'a'; s.d[1] = 'b'; s.dterm = 1; s.sl = 1; s.s[0] = 'b'; s.sterm = 1;
        s.dnull = dnull; s.snull = snull; s.onull = onull; s.bos = bos;
        s.dmax = dm == 0 ? 0 : 3; s.viol = dm == 2 ? 3 : dm == 3 ? 4 : 1; if (dm == 2 && dnull) continue;
        if (dm == 3) { if (!bos || dnull || q->rk == RK_LEN) continue; }   /* dmax one element above the known size of dest ("dmax shall not be greater than the size of dest") */
        s.slen = (q->fl & QF_SLEN) ? (sl == 0 ? 2 : sl == 1 ? 0 : q->limit + 1) : 0;
        if (sl == 2 && bos && (q->fl & QF_SRCBOS)) continue;
        s.ch = chv ? 256 + 'a' : 'a'; s.count = 2;
        if (q->fl & QF_MEM) { s.dterm = 0; s.dl = 3; s.d[2] = 'c'; s.sl = 2; s.s[1] = 'c'; s.sterm = 0; if (!(q->fl & QF_SLEN)) { s.sl = 3; s.s[2] = 'c'; } }
        if (dm == 0) { s.dmax = 0; }
        long idx = g_idx++; if (pick(idx)) { g_shm->cur = idx; run_case(q, &s, idx); }
        /* the same scenario with src being the very pointer passed as dest: a same-object shortcut must not come before the checks */
        if ((q->fl & QF_SRC) && !dnull && !snull) {
            qscn a = s; a.salias = 1; a.sl = a.dl; memcpy(a.s, a.d, sizeof a.s); a.sterm = a.dterm;
            if ((q->fl & QF_SLEN) && sl == 0 && !(q->fl & QF_MEM)) a.slen = a.dl + 1;
            idx = g_idx++; if (!pick(idx)) continue; g_shm->cur = idx; run_case(q, &a, idx);
        }
    }
}

static void body(void *arg, long lo, long hi) { (void)hi; g_skip_below = lo; gen(*(int *)arg); for (int i = 0; i < K_NUM; i++) __sync_fetch_and_add(&CTR(i), K[i]); __sync_fetch_and_add(&CTR(60), g_fp_checks); distinct_emit(); }
static void on_death(void *arg, long idx, int status, int hung) {
    int qi = *(int *)arg; char key[300], what[400], wit[400];
    CTR(K_DEATH)++;
    if (!g_shm->in_call) { fprintf(g_out, "{\"t\":\"harness_error\",\"fn\":\"%s\",\"idx\":%ld,\"status\":%d}\n", QD[qi].name, idx, status); fflush(g_out); return; }
    snprintf(key, sizeof key, "%s|worker-%s|%s", QD[qi].name, hung ? "hang" : "death", hung ? "watchdog" : WIFSIGNALED(status) ? strsignal(WTERMSIG(status)) : "exit");
    snprintf(what, sizeof what, "%s: the process %s while executing scenario %ld (status %#x)", QD[qi].name, hung ? "hung" : "died", idx, status);
    snprintf(wit, sizeof wit, "{\"harness\":\"queries\",\"cfg\":\"%s\",\"fn\":\"%s\",\"idx\":%ld,\"replay\":\"queries --cfg %s --fn %s --idx %ld --seed %llu --tier %s\"}", g_cfg, QD[qi].name, idx, g_cfg, QD[qi].name, idx, (unsigned long long)g_seed, g_tier ? "thorough" : "quick");
    report(want("C02") ? "C02" : want("C01") ? "C01" : g_prop, key, what, wit);
}

int main(int argc, char **argv) {
    g_out = stdout;
    for (int i = 1; i < argc; i++) {
        if (!strcmp(argv[i], "--prop")) g_prop = argv[++i];
        else if (!strcmp(argv[i], "--tier")) g_tier = !strcmp(argv[++i], "thorough");
        else if (!strcmp(argv[i], "--seed")) g_seed = strtoull(argv[++i], NULL, 10);
        else if (!strcmp(argv[i], "--worker")) sscanf(argv[++i], "%d/%d", &g_wid, &g_nw);
        else if (!strcmp(argv[i], "--cfg")) g_cfg = argv[++i];
        else if (!strcmp(argv[i], "--fn")) g_only_fn = argv[++i];
        else if (!strcmp(argv[i], "--idx")) g_only_idx = atol(argv[++i]);
        else if (!strcmp(argv[i], "--mode")) ++i;
        else if (!strcmp(argv[i], "--verbose")) g_verbose = 1;
        else { fprintf(stderr, "unknown arg %s\n", argv[i]); return 2; }
    }
    setlocale(LC_ALL, "C");
    arena_init(); fence_init(); shm_init(); probes_install(); fp_init();
    for (int qi = 0; qi < NQ; qi++) {
        if (g_only_fn && strcmp(g_only_fn, QD[qi].name)) continue;
        memset(K, 0, sizeof K);
        run_supervised(body, on_death, &qi, 0, 1L << 40, 20);
    }
    for (int i = 0; i < K_NUM; i++) emit_counter(KN[i], CTR(i));
    emit_counter("footprint_checks", CTR(60));
    fprintf(g_out, "{\"t\":\"end\"}\n"); fflush(g_out);
    return 0;
}
