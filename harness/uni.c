/* C17 driver.
 * mode "fold": iswfc(c) vs the number of characters _towfc_s_chk / _wcsfc_s_chk emit, for every value 0..0x110400 and
 *              a sample of larger 32-bit values (dest exact-fit between PROT_NONE pages; ASan build catches table indexing).
 * mode "norm": reads lines "cp,cp,...;nfd_len;nfc_len" from stdin, normalises with _wcsnorm_s_chk in NFD and NFC, once with
 *              dmax = max(expected+1, 5) (minimal) and once ample, normalises the result again (idempotence), and writes
 *              "<id> <mode> <dmaxkind> <rc> <len> cp cp ..." lines; the Python side compares with unicodedata. */
#include "common.h"
#include <wchar.h>

static const char *g_cfg = "plain"; static const char *g_mode = "fold"; static int g_tier;
static int want(const char *p) { return !strcmp(g_prop, "ALL") || !strcmp(g_prop, p); }
static unsigned long long n_cases, n_faults;

static void vio(const char *prop, const char *rule, const char *det, const char *obs, unsigned long cp) {
    char key[200], what[400], w[400];
    if (!want(prop)) return;
    snprintf(key, sizeof key, "%s|%s", rule, det);
    snprintf(what, sizeof what, "%s: %s", rule, obs);
    snprintf(w, sizeof w, "{\"harness\":\"uni\",\"cfg\":\"%s\",\"mode\":\"%s\",\"codepoint\":\"U+%04lX\",\"obs\":\"%s\",\"replay\":\"uni --cfg %s --mode %s\"}", g_cfg, g_mode, cp, obs, g_cfg, g_mode);
    report(prop, key, what, w);
}
static const char *plane(unsigned long c) { return c < 0x10000 ? "BMP" : c <= 0x10FFFF ? "supplementary" : "above-10FFFF"; }

/* strings that contain a value above U+10FFFF must be rejected by wcsnorm_s (NFD, NFC), wcsnorm_decompose_s and wcsfc_s, whichever operand
 * lies lower in memory (the library has one loop per operand order) and wherever the value sits in the string */
static void range_strings(void) {
    static const uint32_t BAD[] = {0x110000, 0x110005, 0x1FFFFF, 0x7FFFFFFF, 0x80000000u, 0x80000041u, 0xFFFFFFFFu, 0xFFFF0130u}; char obs[240];   /* the last four are negative as wchar_t */
    for (unsigned bi = 0; bi < 8; bi++) for (int pos = 0; pos < 3; pos++) for (int order = 0; order < 2; order++) for (int fn = 0; fn < 4; fn++) {
        wchar_t str[4] = {L'a', 0xC5, L'b', 0}; str[pos] = (wchar_t)BAD[bi];
        wchar_t *d = place_end(order ? 1 : 0, 24 * sizeof(wchar_t)), *sp = place_end(order ? 0 : 1, sizeof str); memcpy(sp, str, sizeof str);
        for (int k = 0; k < 24; k++) d[k] = 0x7878;
        rsize_t l = 0; errno_t rc = -999; static const char *FNN[4] = {"wcsnorm_s(NFD)", "wcsnorm_s(NFC)", "wcsnorm_decompose_s", "wcsfc_s"};
        FENCED(rc = fn == 0 ? _wcsnorm_s_chk(d, 24, sp, WCSNORM_NFD, &l, 96) : fn == 1 ? _wcsnorm_s_chk(d, 24, sp, WCSNORM_NFC, &l, 96) : fn == 2 ? _wcsnorm_decompose_s_chk(d, 24, sp, &l, 0, 96) : _wcsfc_s_chk(d, 24, sp, &l, 96));
        n_cases++;
        char det[80]; snprintf(det, sizeof det, "%s|%s", FNN[fn], order ? "src-below-dest" : "src-above-dest");
        if (g_fence.faulted) { snprintf(obs, sizeof obs, "%s on a string with U+%X at position %d faults (%s)", FNN[fn], (unsigned)BAD[bi], pos, g_fence.is_write ? "WRITE" : "READ"); vio("C17", "out-of-range-code-point-used-as-index", det, obs, BAD[bi]); continue; }
        if (rc == EOK) { snprintf(obs, sizeof obs, "%s accepts a string with U+%X at position %d (returns EOK, %zu characters)", FNN[fn], (unsigned)BAD[bi], pos, (size_t)l); vio("C17", "out-of-range-code-point-accepted", det, obs, BAD[bi]); }
        { char b[80]; snprintf(b, sizeof b, "r;%s;%d;%d", det, pos, rc); distinct_add(hash_str(b)); }
    }
}

static void mode_fold(void) {
    char obs[240]; unsigned long lim = 0x110400;
    range_strings();
    for (unsigned long i = 0; i < lim + 4096; i++) {
        unsigned long c = i < lim ? i : (unsigned long)(mix64(i) & 0xffffffffu) | 0x00200000ul;     /* beyond: random large 32-bit values */
        if (c >= 0xD800 && c < 0xE000) continue;
        int a = 0, r = -9999; wchar_t *dest = place_end(0, 4 * sizeof(wchar_t)); dest[0] = dest[1] = dest[2] = dest[3] = 0x7878;
        probes_reset();
        FENCED(a = iswfc((uint32_t)c));
        if (g_fence.faulted) { n_faults++; snprintf(obs, sizeof obs, "iswfc(U+%lX) faults: the value is used as a table index", c); vio("C17", "out-of-range-code-point-used-as-index", plane(c), obs, c); continue; }
        FENCED(r = _towfc_s_chk(dest, 4, (uint32_t)c, 4 * sizeof(wchar_t)));
        n_cases++;
        if (g_fence.faulted) { n_faults++; snprintf(obs, sizeof obs, "towfc_s(U+%lX) %s fault (iswfc said %d)", c, g_fence.is_write ? "WRITE" : "READ", a); vio(c > 0x10FFFF ? "C17" : (g_fence.is_write ? "C01" : "C02"), c > 0x10FFFF ? "out-of-range-code-point-used-as-index" : "towfc_s-fault", plane(c), obs, c); continue; }
        if (c > 0x10FFFF) { if (r >= 0 && a != 0) { snprintf(obs, sizeof obs, "U+%lX above U+10FFFF is folded (iswfc %d, towfc_s %d) instead of being rejected", c, a, r); vio("C17", "out-of-range-code-point-accepted", "above-10FFFF", obs, c); } continue; }
        if (a > 0 && r != a) { snprintf(obs, sizeof obs, "iswfc(U+%lX) announces %d characters, towfc_s emitted %d", c, a, r); vio("C17", "announced-length-differs-from-emitted", plane(c), obs, c); }
        else if (a == 0 && r > 1) { snprintf(obs, sizeof obs, "iswfc(U+%lX) announces no mapping, towfc_s emitted %d characters", c, r); vio("C17", "announced-length-differs-from-emitted", plane(c), obs, c); }
        /* wcsfc_s on the one-character string, dest sized from the announcement (+ terminator) */
        if (c) {
            size_t need = (size_t)(a > 0 ? a : 1) + 1; if (need < 5) need = 5;     /* 5 is the documented minimum of wcsfc_s */
            wchar_t *d2 = place_end(1, need * sizeof(wchar_t)); wchar_t src[2] = {(wchar_t)c, 0}; rsize_t l = 99; errno_t rc = -999;
            for (size_t k = 0; k < need; k++) d2[k] = 0x7878;
            FENCED(rc = _wcsfc_s_chk(d2, need, src, &l, need * sizeof(wchar_t)));
            if (g_fence.faulted) { n_faults++; snprintf(obs, sizeof obs, "wcsfc_s(U+%lX) %s fault with dest sized from iswfc (%zu elements)", c, g_fence.is_write ? "WRITE" : "READ", need); if (g_fence.is_write) vio("C01", "wcsfc_s-W-fault", plane(c), obs, c);
                vio("C17", g_fence.is_write ? "destination-sized-from-iswfc-is-overrun" : "destination-sized-from-iswfc-does-not-suffice", c >= 0x1f80 && c <= 0x1ff4 ? "greek-iota-subscript-block" : plane(c), obs, c); continue; }
            if (rc == ESNOSPC) { snprintf(obs, sizeof obs, "wcsfc_s(U+%lX) reports no space for a destination of iswfc()+1 = %zu elements", c, need); vio("C17", "destination-sized-from-iswfc-does-not-suffice", plane(c), obs, c); }
            else if (rc == EOK && l != (size_t)(a > 0 ? a : 1)) { snprintf(obs, sizeof obs, "wcsfc_s(U+%lX) produced %zu characters, iswfc announces %d (wcsfc_s also decomposes to NFD)", c, l, a); vio("C17", "wcsfc_s-emits-more-than-iswfc-announces", l > (size_t)(a > 0 ? a : 1) ? "nfd-decomposition" : "fewer", obs, c); }
            else if (rc != EOK) { snprintf(obs, sizeof obs, "wcsfc_s(U+%lX) returns %d for a destination of %zu elements", c, rc, need); vio("C17", "wcsfc_s-rejects-assigned-or-unassigned-scalar", plane(c), obs, c); }
            if (rc == EOK && (wcsnlen(d2, need) >= need || wcsnlen(d2, need) != l)) { snprintf(obs, sizeof obs, "wcsfc_s(U+%lX) returns EOK, *lenp=%zu, but dest holds %zu characters within %zu", c, l, wcsnlen(d2, need), need); vio("C17", "wcsfc_s-length-or-terminator-wrong", plane(c), obs, c); }
        }
        if ((c & 0xfff) == 0) { char b[40]; snprintf(b, sizeof b, "f;%lx;%d;%d", c >> 12, a, r); distinct_add(hash_str(b)); }
    }
}

/* a failed call: dest terminated (C03), empty, and in the null-slack build wholly cleared (C04) */
static void failed_state(const char *fn, const wchar_t *d, size_t dmax, errno_t rc, const char *det, unsigned long cp) {
    char obs[200]; int noslack = !strcmp(g_cfg, "noslack");
    if (wcsnlen(d, dmax) >= dmax) { snprintf(obs, sizeof obs, "%s(dmax=%zu) fails with %d and leaves dest without a terminator", fn, dmax, rc); char r[60]; snprintf(r, sizeof r, "%s-failed-dest-unterminated", fn); vio("C03", r, det, obs, cp); return; }
    if (d[0] != 0) { snprintf(obs, sizeof obs, "%s(dmax=%zu) fails with %d but dest[0]=%#x", fn, dmax, rc, (unsigned)d[0]); char r[60]; snprintf(r, sizeof r, "%s-failed-dest-not-empty", fn); vio("C04", r, det, obs, cp); return; }
    /* no element holds anything the call wrote (0x7878 is what was there before); when the failure came after copying began
       (no space) the null-slack build clears all of dest */
    for (size_t i = 1; i < dmax; i++) if (d[i] && (d[i] != 0x7878 || (!noslack && rc == ESNOSPC))) { snprintf(obs, sizeof obs, "%s(dmax=%zu) fails with %d but dest[%zu]=%#x still holds output", fn, dmax, rc, i, (unsigned)d[i]); char r[80]; snprintf(r, sizeof r, noslack ? "%s-partial-result-left-no-slack-build" : "%s-failed-partial-result-left", fn); vio("C04", r, det, obs, cp); return; }
}

/* strings of characters with 1-, 2- and 3-character foldings and NFD expansions, every dmax from 1 up: no access outside dest, EOK only with a terminated
 * result of the reported length, the same text as with an ample destination */
static void mode_fcstr(void) {
    static const wchar_t A[] = {L'a', L'Z', 0xDF, 0x390, 0x1F82, 0x100, 0xFB03, 0x3A3, 0x1FB7, 0x1E9E, 0x10400};
    enum { NA = sizeof A / sizeof A[0] };
    char obs[300]; int maxlen = g_tier ? 4 : 3; wchar_t ref[64];
    for (int len = 1; len <= maxlen; len++) {
        unsigned long total = 1; for (int i = 0; i < len; i++) total *= NA;
        for (unsigned long code = 0; code < total; code++) {
            wchar_t src[8]; unsigned long x = code; for (int i = 0; i < len; i++) { src[i] = A[x % NA]; x /= NA; } src[len] = 0;
            rsize_t rl = 0; errno_t rrc = _wcsfc_s_chk(ref, 64, src, &rl, sizeof ref);
            if (rrc != EOK) { snprintf(obs, sizeof obs, "wcsfc_s of a %d-character string returns %d with an ample destination", len, rrc); vio("C17", "wcsfc_s-string-rejected", "ample", obs, src[0]); continue; }
            for (int ord = 0; ord < 2; ord++)     /* dest below src, dest above src: the library has one loop for each */
            for (size_t dmax = 1; dmax <= rl + 6; dmax++) {
                wchar_t *d = place_end(ord, dmax * sizeof(wchar_t)); for (size_t k = 0; k < dmax; k++) d[k] = 0x7878;
                wchar_t *s = place_end(!ord, (len + 1) * sizeof(wchar_t)); memcpy(s, src, (len + 1) * sizeof(wchar_t));
                rsize_t l = 99; errno_t rc = -999; probes_reset();
                FENCED(rc = _wcsfc_s_chk(d, dmax, s, &l, dmax * sizeof(wchar_t)));
                n_cases++;
                const char *fit0 = dmax <= rl ? "too-small" : dmax < rl + 5 ? "fits-with-less-than-4-spare" : "fits-with-spare";
                char fit[64]; snprintf(fit, sizeof fit, "%s%s", fit0, ord ? "|dest-above-src" : "");
                if (g_fence.faulted) { n_faults++; snprintf(obs, sizeof obs, "wcsfc_s(dmax=%zu) on a %d-character string whose folding has %zu characters: %s fault at dest%+ld", dmax, len, (size_t)rl, g_fence.is_write ? "WRITE" : "READ", (long)(g_fence.addr - (uintptr_t)d));
                    vio("C17", g_fence.is_write ? "wcsfc_s-string-overruns-dest" : "wcsfc_s-string-reads-outside", fit, obs, src[0]);
                    vio(g_fence.is_write ? "C01" : "C02", g_fence.is_write ? "wcsfc_s-W-fault" : "wcsfc_s-R-fault", fit, obs, src[0]); continue; }
                if (rc == EOK) {
                    size_t got = wcsnlen(d, dmax);
                    if (got >= dmax) { snprintf(obs, sizeof obs, "wcsfc_s(dmax=%zu) returns EOK with an unterminated dest", dmax); vio("C17", "wcsfc_s-string-unterminated", fit, obs, src[0]); }
                    else if (got != rl || wmemcmp(d, ref, rl)) { snprintf(obs, sizeof obs, "wcsfc_s(dmax=%zu) returns EOK with a different text (%zu characters) than with an ample dest (%zu)", dmax, got, (size_t)rl); vio("C17", "wcsfc_s-string-result-depends-on-dmax", fit, obs, src[0]); }
                    else if (l != rl) { snprintf(obs, sizeof obs, "wcsfc_s(dmax=%zu) stores %zu characters but reports *lenp=%zu", dmax, got, (size_t)l); vio("C17", "wcsfc_s-string-length-wrong", fit, obs, src[0]); }
                } else if (rc == ESNOSPC) {
                    if (dmax >= rl + 5) { snprintf(obs, sizeof obs, "wcsfc_s(dmax=%zu) reports no space although the folding has %zu characters", dmax, (size_t)rl); vio("C17", "wcsfc_s-string-no-space-with-4-spare", fit, obs, src[0]); }
                    if (g_h.count != 1) { snprintf(obs, sizeof obs, "wcsfc_s ESNOSPC with %d handler calls", (int)g_h.count); vio("C05", "wcsfc_s-handler-count", fit, obs, src[0]); }
                    if (dmax >= 5) failed_state("wcsfc_s", d, dmax, rc, fit, src[0]);
                } else { snprintf(obs, sizeof obs, "wcsfc_s(dmax=%zu) returns %d", dmax, rc); vio("C17", "wcsfc_s-string-unexpected-code", fit, obs, src[0]); }
                { char b[60]; snprintf(b, sizeof b, "s;%d;%s;%d;%zu", len, fit, rc, (size_t)rl); distinct_add(hash_str(b)); }
            }
        }
    }
}

/* wcsnorm_s on strings of decomposable characters with every dmax from 1 up: no access outside dest, EOK only with the text an ample
 * destination gets (terminated, *lenp right), an error only when the destination really is too small (or below the documented minimum 5) */
static void mode_normstr(void) {
    static const wchar_t A[] = {L'a', 0xC5, 0xE9, 0x1D6, 0xAC01, 0x1F82, 0x301, 0x323, 0x1100, 0x1161, 0x11A8, 0x10400};
    enum { NA = sizeof A / sizeof A[0] };
    char obs[300]; int maxlen = g_tier ? 4 : 3; wchar_t ref[2][80];
    for (int len = 1; len <= maxlen; len++) {
        unsigned long total = 1; for (int i = 0; i < len; i++) total *= NA;
        for (unsigned long code = 0; code < total; code++) {
            if (!g_tier && len == 3 && code % 3) continue;
            wchar_t src[8]; unsigned long x = code; for (int i = 0; i < len; i++) { src[i] = A[x % NA]; x /= NA; } src[len] = 0;
            for (int mode = 0; mode < 2; mode++) {
                rsize_t rl = 0; errno_t rrc = _wcsnorm_s_chk(ref[mode], 80, src, mode ? WCSNORM_NFC : WCSNORM_NFD, &rl, sizeof ref[mode]);
                const char *fm = mode ? "NFC" : "NFD";
                if (rrc != EOK) { snprintf(obs, sizeof obs, "wcsnorm_s(%s) of a %d-character string returns %d with an ample destination", fm, len, rrc); vio("C17", "wcsnorm_s-string-rejected", fm, obs, src[0]); continue; }
                /* the decomposition pass needs room for the NFD text even in NFC mode */
                rsize_t dl = 0; wchar_t tmpd[80]; _wcsnorm_s_chk(tmpd, 80, src, WCSNORM_NFD, &dl, sizeof tmpd);
                for (int ord = 0; ord < 2; ord++)
                for (size_t dmax = 1; dmax <= dl + 6; dmax++) {
                    wchar_t *d = place_end(ord, dmax * sizeof(wchar_t)); for (size_t k = 0; k < dmax; k++) d[k] = 0x7878;
                    wchar_t *sp = place_end(!ord, (len + 1) * sizeof(wchar_t)); memcpy(sp, src, (len + 1) * sizeof(wchar_t));
                    rsize_t l = 99; errno_t rc = -999; probes_reset();
                    FENCED(rc = _wcsnorm_s_chk(d, dmax, sp, mode ? WCSNORM_NFC : WCSNORM_NFD, &l, dmax * sizeof(wchar_t)));
                    n_cases++;
                    const char *fit = dmax < 5 ? "below-minimum-5" : dmax <= dl ? "too-small-for-NFD" : dmax < dl + 5 ? "fits-with-less-than-4-spare" : "fits-with-spare";
                    char det[100]; snprintf(det, sizeof det, "%s|%s%s", fm, fit, ord ? "|dest-above-src" : "");
                    if (g_fence.faulted) { n_faults++; snprintf(obs, sizeof obs, "wcsnorm_s(%s, dmax=%zu) on a %d-character string (NFD length %zu): %s fault at dest%+ld", fm, dmax, len, (size_t)dl, g_fence.is_write ? "WRITE" : "READ", (long)(g_fence.addr - (uintptr_t)d));
                        vio("C17", g_fence.is_write ? "wcsnorm_s-string-overruns-dest" : "wcsnorm_s-string-reads-outside", det, obs, src[0]);
                        vio(g_fence.is_write ? "C01" : "C02", g_fence.is_write ? "wcsnorm_s-W-fault" : "wcsnorm_s-R-fault", det, obs, src[0]); continue; }
                    if (rc == EOK) {
                        size_t got = wcsnlen(d, dmax);
                        if (got >= dmax) { snprintf(obs, sizeof obs, "wcsnorm_s(%s, dmax=%zu) returns EOK with an unterminated dest", fm, dmax); vio("C17", "wcsnorm_s-string-unterminated", det, obs, src[0]); }
                        else if (got != rl || wmemcmp(d, ref[mode], rl)) { snprintf(obs, sizeof obs, "wcsnorm_s(%s, dmax=%zu) returns EOK with a different text (%zu characters) than with an ample dest (%zu)", fm, dmax, got, (size_t)rl); vio("C17", "wcsnorm_s-string-result-depends-on-dmax", det, obs, src[0]); }
                        else if (l != rl) { snprintf(obs, sizeof obs, "wcsnorm_s(%s, dmax=%zu) stores %zu characters but reports *lenp=%zu", fm, dmax, got, (size_t)l); vio("C17", "wcsnorm_s-string-length-wrong", det, obs, src[0]); }
                    } else if (rc == ESNOSPC || rc == ESLEMIN) {
                        if (dmax >= dl + 5) { snprintf(obs, sizeof obs, "wcsnorm_s(%s, dmax=%zu) reports %d although the NFD text has %zu characters", fm, dmax, rc, (size_t)dl); vio("C17", "wcsnorm_s-string-no-space-with-4-spare", det, obs, src[0]); }
                        if (g_h.count != 1) { snprintf(obs, sizeof obs, "wcsnorm_s(%s, dmax=%zu) fails with %d and %d handler calls", fm, dmax, rc, (int)g_h.count); vio("C05", "wcsnorm_s-handler-count", det, obs, src[0]); }
                        failed_state("wcsnorm_s", d, dmax, rc, det, src[0]);
                    } else { snprintf(obs, sizeof obs, "wcsnorm_s(%s, dmax=%zu) returns %d", fm, dmax, rc); vio("C17", "wcsnorm_s-string-unexpected-code", det, obs, src[0]); }
                    { char b[80]; snprintf(b, sizeof b, "n;%d;%s;%d;%zu", len, det, rc, (size_t)rl); distinct_add(hash_str(b)); }
                }
                /* overlapping operands ("ESOVRLP when buffers overlap"): src starting k elements into dest (k >= 0) or dest starting -k elements into
                   the source string; either the overlap is reported (once, dest emptied) or the call returns exactly the text disjoint operands get */
                {   size_t dmax = dl + 6;
                    for (long k = -(long)len; k < (long)dmax; k++) {
                        size_t tot = dmax + (size_t)len + 1 + (size_t)(k < 0 ? -k : k);
                        wchar_t *blk = place_end(0, tot * sizeof(wchar_t)); for (size_t q = 0; q < tot; q++) blk[q] = 0x7878;
                        wchar_t *d = k >= 0 ? blk : blk + (-k), *sp = k >= 0 ? blk + k : blk;
                        memcpy(sp, src, (len + 1) * sizeof(wchar_t));
                        rsize_t l = 99; errno_t rc = -999; probes_reset();
                        FENCED(rc = _wcsnorm_s_chk(d, dmax, sp, mode ? WCSNORM_NFC : WCSNORM_NFD, &l, BOS_UNKNOWN));
                        n_cases++;
                        char det[100]; snprintf(det, sizeof det, "%s|overlap|%s", fm, k == 0 ? "same-pointer" : k > 0 ? "src-inside-dest" : "dest-inside-src");
                        if (g_fence.faulted) { n_faults++; snprintf(obs, sizeof obs, "wcsnorm_s(%s) with src = dest%+ld: %s fault", fm, k, g_fence.is_write ? "WRITE" : "READ"); vio(g_fence.is_write ? "C01" : "C02", g_fence.is_write ? "wcsnorm_s-W-fault" : "wcsnorm_s-R-fault", det, obs, src[0]); continue; }
                        if (rc == ESOVRLP) {
                            if (g_h.count != 1) { snprintf(obs, sizeof obs, "wcsnorm_s(%s) with src = dest%+ld: ESOVRLP with %d handler calls", fm, k, (int)g_h.count); vio("C05", "wcsnorm_s-handler-count", det, obs, src[0]); }
                            if (k != 0 && d[0] != 0) { snprintf(obs, sizeof obs, "wcsnorm_s(%s) with src = dest%+ld reports the overlap but dest[0]=%#x", fm, k, (unsigned)d[0]); vio("C04", "wcsnorm_s-failed-dest-not-empty", det, obs, src[0]); }
                        } else if (rc == EOK) {
                            size_t got = wcsnlen(d, dmax);
                            if (got != rl || wmemcmp(d, ref[mode], rl) || l != rl) { snprintf(obs, sizeof obs, "wcsnorm_s(%s, dmax=%zu) with src = dest%+ld (%d-character source) returns EOK with a corrupted text (%zu characters, disjoint operands give %zu)", fm, dmax, k, len, got, (size_t)rl); vio("C05", "wcsnorm_s-overlap-not-reported-and-result-corrupted", det, obs, src[0]); }
                        } else { snprintf(obs, sizeof obs, "wcsnorm_s(%s) with src = dest%+ld returns %d", fm, k, rc); vio("C05", "wcsnorm_s-overlap-unexpected-code", det, obs, src[0]); }
                        { char b[80]; snprintf(b, sizeof b, "o;%d;%s;%d", len, det, rc); distinct_add(hash_str(b)); }
                    }
                }
            }
        }
    }
}

static void mode_norm(void) {
    static char line[8192]; static wchar_t src[600], out[1024], out2[1024];
    while (fgets(line, sizeof line, stdin)) {
        long id = strtol(line, NULL, 10); char *p = strchr(line, ' '); if (!p) continue; p++;
        size_t n = 0; while (*p && *p != ';') { src[n++] = (wchar_t)strtoul(p, &p, 16); if (*p == ',') p++; }
        src[n] = 0; size_t exp[2] = {0, 0}; if (*p == ';') { exp[0] = strtoul(p + 1, &p, 10); if (*p == ';') exp[1] = strtoul(p + 1, &p, 10); }
        for (int mode = 0; mode < 2; mode++) for (int kind = 0; kind < 2; kind++) {
            size_t dmax = kind == 0 ? (exp[mode] + 1 < 5 ? 5 : exp[mode] + 1) : 4 * n + 40; if (dmax > 1000) dmax = 1000;
            wchar_t *dest = place_end(0, dmax * sizeof(wchar_t)); for (size_t i = 0; i < dmax; i++) dest[i] = 0x7878;
            wchar_t *s = place_end(1, (n + 1) * sizeof(wchar_t)); memcpy(s, src, (n + 1) * sizeof(wchar_t));
            rsize_t len = 0; errno_t rc = -999;
            FENCED(rc = _wcsnorm_s_chk(dest, dmax, s, mode ? WCSNORM_NFC : WCSNORM_NFD, &len, dmax * sizeof(wchar_t)));
            n_cases++;
            if (g_fence.faulted) { printf("%ld %d %d FAULT%c %ld\n", id, mode, kind, g_fence.is_write ? 'W' : 'R', (long)(g_fence.addr - (uintptr_t)dest)); continue; }
            printf("%ld %d %d %d %zu", id, mode, kind, rc, (size_t)len);
            if (rc == EOK) { size_t l = wcsnlen(dest, dmax); for (size_t i = 0; i < l; i++) printf(" %x", (unsigned)dest[i]);
                /* idempotence */
                if (kind == 1) { memcpy(out, dest, (l + 1) * sizeof(wchar_t)); rsize_t l2 = 0; errno_t rc2 = _wcsnorm_s_chk(out2, 1000, out, mode ? WCSNORM_NFC : WCSNORM_NFD, &l2, sizeof out2);
                    if (rc2 != EOK || l2 != l || wmemcmp(out, out2, l)) printf(" !IDEM"); } }
            printf("\n");
        }
        /* full case folding of the same string with an ample destination (mode 2); the reference is NFD(str.casefold()) */
        { size_t dmax = 4 * n + 40; if (dmax > 1000) dmax = 1000;
          wchar_t *dest = place_end(0, dmax * sizeof(wchar_t)); for (size_t i = 0; i < dmax; i++) dest[i] = 0x7878;
          wchar_t *s = place_end(1, (n + 1) * sizeof(wchar_t)); memcpy(s, src, (n + 1) * sizeof(wchar_t));
          rsize_t len = 0; errno_t rc = -999;
          FENCED(rc = _wcsfc_s_chk(dest, dmax, s, &len, dmax * sizeof(wchar_t)));
          n_cases++;
          if (g_fence.faulted) printf("%ld 2 1 FAULT%c %ld\n", id, g_fence.is_write ? 'W' : 'R', (long)(g_fence.addr - (uintptr_t)dest));
          else { printf("%ld 2 1 %d %zu", id, rc, (size_t)len); if (rc == EOK) { size_t l = wcsnlen(dest, dmax); for (size_t i = 0; i < l; i++) printf(" %x", (unsigned)dest[i]); } printf("\n"); } }
    }
}
int main(int argc, char **argv) {
    g_out = stdout;
    for (int i = 1; i < argc; i++) {
        if (!strcmp(argv[i], "--prop")) g_prop = argv[++i];
        else if (!strcmp(argv[i], "--tier")) g_tier = !strcmp(argv[++i], "thorough");
        else if (!strcmp(argv[i], "--seed")) g_seed = strtoull(argv[++i], NULL, 10);
        else if (!strcmp(argv[i], "--worker")) ++i;
        else if (!strcmp(argv[i], "--cfg")) g_cfg = argv[++i];
        else if (!strcmp(argv[i], "--mode")) g_mode = argv[++i];
        else { fprintf(stderr, "unknown arg %s\n", argv[i]); return 2; }
    }
    arena_init(); fence_init(); probes_install();
    if (!strcmp(g_mode, "norm")) { mode_norm(); printf("END %llu\n", n_cases); return 0; }
    if (!strcmp(g_mode, "fcstr")) mode_fcstr(); else if (!strcmp(g_mode, "normstr")) mode_normstr(); else mode_fold();
    emit_counter(!strcmp(g_mode, "fcstr") ? "fold_string_cases" : !strcmp(g_mode, "normstr") ? "norm_string_cases" : "fold_cases", n_cases); emit_counter("fold_faults", n_faults);
    distinct_emit();
    fprintf(g_out, "{\"t\":\"end\"}\n"); fflush(g_out);
    return 0;
}
