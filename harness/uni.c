/* C17 driver.
 * mode "fold": iswfc(c) vs the number of characters _towfc_s_chk / _wcsfc_s_chk emit, for every value 0..0x110400 and
 *              a sample of larger 32-bit values (dest exact-fit between PROT_NONE pages; ASan build catches table indexing).
 * mode "norm": reads lines "cp,cp,...;nfd_len;nfc_len" from stdin, normalises with _wcsnorm_s_chk in NFD and NFC, once with
 *              dmax = max(expected+1, 5) (minimal) and once ample, normalises the result again (idempotence), and writes
 *              "<id> <mode> <dmaxkind> <rc> <len> cp cp ..." lines; the Python side compares with unicodedata. */
#include "common.h"
#include <wchar.h>

static const char *g_cfg = "plain"; static const char *g_mode = "fold"; static int g_tier;
static int want(const char *p) { return !strcmp(g_prop, "ALL") || !strcmp(g_prop, p); }
static unsigned long long n_cases, n_faults;

static void vio(const char *prop, const char *rule, const char *det, const char *obs, unsigned long cp) {
    char key[200], what[400], w[400];
    if (!want(prop)) return;
    snprintf(key, sizeof key, "%s|%s", rule, det);
    snprintf(what, sizeof what, "%s: %s", rule, obs);
    snprintf(w, sizeof w, "{\"harness\":\"uni\",\"cfg\":\"%s\",\"mode\":\"%s\",\"codepoint\":\"U+%04lX\",\"obs\":\"%s\",\"replay\":\"uni --cfg %s --mode %s\"}", g_cfg, g_mode, cp, obs, g_cfg, g_mode);
    report(prop, key, what, w);
}
static const char *plane(unsigned long c) { return c < 0x10000 ? "BMP" : c <= 0x10FFFF ? "supplementary" : "above-10FFFF"; }

static void mode_fold(void) {
    char obs[240]; unsigned long lim = 0x110400;
    for (unsigned long i = 0; i < lim + 4096; i++) {
        unsigned long c = i < lim ? i : (unsigned long)(mix64(i) & 0xffffffffu) | 0x00200000ul;     /* beyond: random large 32-bit values */
        if (c >= 0xD800 && c < 0xE000) continue;
        int a = 0, r = -9999; wchar_t *dest = place_end(0, 4 * sizeof(wchar_t)); dest[0] = dest[1] = dest[2] = dest[3] = 0x7878;
        probes_reset();
        FENCED(a = iswfc((uint32_t)c));
        if (g_fence.faulted) { n_faults++; snprintf(obs, sizeof obs, "iswfc(U+%lX) faults: the value is used as a table index", c); vio("C17", "out-of-range-code-point-used-as-index", plane(c), obs, c); continue; }
        FENCED(r = _towfc_s_chk(dest, 4, (uint32_t)c, 4 * sizeof(wchar_t)));
        n_cases++;
        if (g_fence.faulted) { n_faults++; snprintf(obs, sizeof obs, "towfc_s(U+%lX) %s fault (iswfc said %d)", c, g_fence.is_write ? "WRITE" : "READ", a); vio(c > 0x10FFFF ? "C17" : (g_fence.is_write ? "C01" : "C02"), c > 0x10FFFF ? "out-of-range-code-point-used-as-index" : "towfc_s-fault", plane(c), obs, c); continue; }
        if (c > 0x10FFFF) { if (r >= 0 && a != 0) { snprintf(obs, sizeof obs, "U+%lX above U+10FFFF is folded (iswfc %d, towfc_s %d) instead of being rejected", c, a, r); vio("C17", "out-of-range-code-point-accepted", "above-10FFFF", obs, c); } continue; }
        if (a > 0 && r != a) { snprintf(obs, sizeof obs, "iswfc(U+%lX) announces %d characters, towfc_s emitted %d", c, a, r); vio("C17", "announced-length-differs-from-emitted", plane(c), obs, c); }
        else if (a == 0 && r > 1) { snprintf(obs, sizeof obs, "iswfc(U+%lX) announces no mapping, towfc_s emitted %d characters", c, r); vio("C17", "announced-length-differs-from-emitted", plane(c), obs, c); }
        /* wcsfc_s on the one-character string, dest sized from the announcement (+ terminator) */
        if (c) {
            size_t need = (size_t)(a > 0 ? a : 1) + 1; if (need < 2) need = 2;
            wchar_t *d2 = place_end(1, need * sizeof(wchar_t)); wchar_t src[2] = {(wchar_t)c, 0}; rsize_t l = 99; errno_t rc = -999;
            for (size_t k = 0; k < need; k++) d2[k] = 0x7878;
            FENCED(rc = _wcsfc_s_chk(d2, need, src, &l, need * sizeof(wchar_t)));
            if (g_fence.faulted) { n_faults++; snprintf(obs, sizeof obs, "wcsfc_s(U+%lX) %s fault with dest sized from iswfc (%zu elements)", c, g_fence.is_write ? "WRITE" : "READ", need); if (g_fence.is_write) vio("C01", "wcsfc_s-W-fault", plane(c), obs, c);
                vio("C17", g_fence.is_write ? "destination-sized-from-iswfc-is-overrun" : "destination-sized-from-iswfc-does-not-suffice", c >= 0x1f80 && c <= 0x1ff4 ? "greek-iota-subscript-block" : plane(c), obs, c); continue; }
            if (rc == ESNOSPC) { snprintf(obs, sizeof obs, "wcsfc_s(U+%lX) reports no space for a destination of iswfc()+1 = %zu elements", c, need); vio("C17", "destination-sized-from-iswfc-does-not-suffice", plane(c), obs, c); }
            else if (rc == EOK && l != (size_t)(a > 0 ? a : 1)) { snprintf(obs, sizeof obs, "wcsfc_s(U+%lX) produced %zu characters, iswfc announces %d", c, l, a); vio("C17", "announced-length-differs-from-emitted", plane(c), obs, c); }
        }
        if ((c & 0xfff) == 0) { char b[40]; snprintf(b, sizeof b, "f;%lx;%d;%d", c >> 12, a, r); distinct_add(hash_str(b)); }
    }
}

static void mode_norm(void) {
    static char line[8192]; static wchar_t src[600], out[1024], out2[1024];
    while (fgets(line, sizeof line, stdin)) {
        long id = strtol(line, NULL, 10); char *p = strchr(line, ' '); if (!p) continue; p++;
        size_t n = 0; while (*p && *p != ';') { src[n++] = (wchar_t)strtoul(p, &p, 16); if (*p == ',') p++; }
        src[n] = 0; size_t exp[2] = {0, 0}; if (*p == ';') { exp[0] = strtoul(p + 1, &p, 10); if (*p == ';') exp[1] = strtoul(p + 1, &p, 10); }
        for (int mode = 0; mode < 2; mode++) for (int kind = 0; kind < 2; kind++) {
            size_t dmax = kind == 0 ? (exp[mode] + 1 < 5 ? 5 : exp[mode] + 1) : 4 * n + 40; if (dmax > 1000) dmax = 1000;
            wchar_t *dest = place_end(0, dmax * sizeof(wchar_t)); for (size_t i = 0; i < dmax; i++) dest[i] = 0x7878;
            wchar_t *s = place_end(1, (n + 1) * sizeof(wchar_t)); memcpy(s, src, (n + 1) * sizeof(wchar_t));
            rsize_t len = 0; errno_t rc = -999;
            FENCED(rc = _wcsnorm_s_chk(dest, dmax, s, mode ? WCSNORM_NFC : WCSNORM_NFD, &len, dmax * sizeof(wchar_t)));
            n_cases++;
            if (g_fence.faulted) { printf("%ld %d %d FAULT%c %ld\n", id, mode, kind, g_fence.is_write ? 'W' : 'R', (long)(g_fence.addr - (uintptr_t)dest)); continue; }
            printf("%ld %d %d %d %zu", id, mode, kind, rc, (size_t)len);
            if (rc == EOK) { size_t l = wcsnlen(dest, dmax); for (size_t i = 0; i < l; i++) printf(" %x", (unsigned)dest[i]);
                /* idempotence */
                if (kind == 1) { memcpy(out, dest, (l + 1) * sizeof(wchar_t)); rsize_t l2 = 0; errno_t rc2 = _wcsnorm_s_chk(out2, 1000, out, mode ? WCSNORM_NFC : WCSNORM_NFD, &l2, sizeof out2);
                    if (rc2 != EOK || l2 != l || wmemcmp(out, out2, l)) printf(" !IDEM"); } }
            printf("\n");
        }
    }
}
int main(int argc, char **argv) {
    g_out = stdout;
    for (int i = 1; i < argc; i++) {
        if (!strcmp(argv[i], "--prop")) g_prop = argv[++i];
        else if (!strcmp(argv[i], "--tier")) g_tier = !strcmp(argv[++i], "thorough");
        else if (!strcmp(argv[i], "--seed")) g_seed = strtoull(argv[++i], NULL, 10);
        else if (!strcmp(argv[i], "--worker")) ++i;
        else if (!strcmp(argv[i], "--cfg")) g_cfg = argv[++i];
        else if (!strcmp(argv[i], "--mode")) g_mode = argv[++i];
        else { fprintf(stderr, "unknown arg %s\n", argv[i]); return 2; }
    }
    arena_init(); fence_init(); probes_install();
    if (!strcmp(g_mode, "norm")) { mode_norm(); printf("END %llu\n", n_cases); return 0; }
    mode_fold();
    emit_counter("fold_cases", n_cases); emit_counter("fold_faults", n_faults);
    distinct_emit();
    fprintf(g_out, "{\"t\":\"end\"}\n"); fflush(g_out);
    return 0;
}
