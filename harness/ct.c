/* C19: timingsafe_bcmp / timingsafe_memcmp.
 *   mode "result": exhaustive result check against memcmp (native run)
 *   mode "taint" : run under valgrind memcheck; both regions are marked UNDEFINED, so any conditional jump /
 *                  address computed from their contents inside the call raises a memcheck error, which is
 *                  attributed to (function, n, content class) through VALGRIND_COUNT_ERRORS deltas.
 *                  Positive control: a naive early-exit compare must raise errors, else the run is inconclusive. */
#include "common.h"
#include <valgrind/memcheck.h>

static const char *g_cfg = "repo"; static int g_tier; static const char *g_mode = "result";
static unsigned long long n_calls, n_tainted, n_ctrl_fired, n_ctrl;

static int sgn(int x) { return x < 0 ? -1 : x > 0; }
static void vio(const char *fn, const char *rule, const char *det, const char *obs, size_t n, long p, int a, int b) {
    char key[200], what[400], w[400];
    snprintf(key, sizeof key, "%s|%s|%s|%s", fn, rule, det, g_cfg);
    snprintf(what, sizeof what, "%s: %s: %s", fn, rule, obs);
    snprintf(w, sizeof w, "{\"harness\":\"ct\",\"cfg\":\"%s\",\"mode\":\"%s\",\"fn\":\"%s\",\"n\":%zu,\"pos\":%ld,\"a\":%d,\"b\":%d,\"replay\":\"ct --cfg %s --mode %s\"}", g_cfg, g_mode, fn, n, p, a, b, g_cfg, g_mode);
    report("C19", key, what, w);
}

static int __attribute__((noinline)) naive_cmp(const volatile unsigned char *a, const volatile unsigned char *b, size_t n) {
    for (size_t i = 0; i < n; i++) if (a[i] != b[i]) return a[i] < b[i] ? -1 : 1;   /* early exit: secret-dependent branch */
    return 0;
}

static void mode_result(void) {
    static unsigned char A[80], B[80];
    size_t maxn = 64; char obs[200];
    rng_t g = rng_from(g_seed, 19, 1);
    for (size_t n = 0; n <= maxn; n++) {
        long ps[3] = {0, (long)n / 2, (long)n - 1};
        for (int pi = 0; pi < (n ? 3 : 1); pi++) {
            long p = n ? ps[pi] : -1;
            if (pi && p == ps[pi - 1]) continue;
            int step = g_tier ? 1 : 3;
            for (int a = 0; a < 256; a += 1) for (int b = (g_tier ? 0 : (a % step)); b < 256; b += step) {
                for (size_t i = 0; i < n; i++) { A[i] = (unsigned char)rnd(&g); B[i] = (long)i < p ? A[i] : (unsigned char)rnd(&g); }
                if (p >= 0) { A[p] = (unsigned char)a; B[p] = (unsigned char)b; }
                int ref = n ? memcmp(A, B, n) : 0;
                int r1 = _timingsafe_bcmp_chk(A, B, n, BOS_UNKNOWN, BOS_UNKNOWN);
                int r2 = _timingsafe_memcmp_chk(A, B, n, n, n);
                n_calls += 2;
                if ((r1 == 0) != (ref == 0) || (r1 != 0 && r1 != 1)) { snprintf(obs, sizeof obs, "n=%zu first difference at %ld (%#x vs %#x): returned %d, memcmp says %s", n, p, a, b, r1, ref ? "different" : "equal"); vio("timingsafe_bcmp", "wrong-result", ref ? "missed-difference" : "false-difference", obs, n, p, a, b); }
                if (sgn(r2) != sgn(ref) || r2 < -1 || r2 > 1) { snprintf(obs, sizeof obs, "n=%zu first difference at %ld (%#x vs %#x): returned %d, memcmp sign %d", n, p, a, b, r2, sgn(ref)); vio("timingsafe_memcmp", "wrong-result", ref == 0 ? "equal-regions" : a < b ? "a<b" : "a>b", obs, n, p, a, b); }
                {   char k[64]; snprintf(k, sizeof k, "r;%zu;%d;%d", n, pi, sgn(ref)); distinct_add(hash_str(k)); }
                if (n == 0) { a = 256; break; }
            }
        }
    }
    /* empty regions: nothing is compared, whatever lies at the two addresses */
    for (int a = 0; a < 256; a += 5) { A[0] = (unsigned char)a; B[0] = (unsigned char)(a ^ 0xff); A[1] = 1; B[1] = 2;
        int r1 = _timingsafe_bcmp_chk(A, B, 0, BOS_UNKNOWN, BOS_UNKNOWN), r2 = _timingsafe_memcmp_chk(A, B, 0, BOS_UNKNOWN, BOS_UNKNOWN), r3 = _timingsafe_bcmp_chk(A + 1, B + 1, 0, 79, 79), r4 = _timingsafe_memcmp_chk(A + 1, B + 1, 0, 79, 79);
        n_calls += 4;
        if (r1 || r3) { snprintf(obs, sizeof obs, "n=0 with different bytes at the two addresses (%#x vs %#x): returned %d", A[0], B[0], r1 ? r1 : r3); vio("timingsafe_bcmp", "wrong-result", "empty-regions", obs, 0, -1, a, a ^ 0xff); }
        if (r2 || r4) { snprintf(obs, sizeof obs, "n=0 with different bytes at the two addresses (%#x vs %#x): returned %d", A[0], B[0], r2 ? r2 : r4); vio("timingsafe_memcmp", "wrong-result", "empty-regions", obs, 0, -1, a, a ^ 0xff); }
        distinct_add(hash_str("r;empty")); }
    /* operands unchanged, overlapping / identical regions */
    for (size_t n = 1; n <= 32; n++) { for (size_t i = 0; i < n; i++) A[i] = (unsigned char)(i * 7 + 1);
        if (_timingsafe_bcmp_chk(A, A, n, n, n) != 0) vio("timingsafe_bcmp", "wrong-result", "same-region", "identical pointers reported as different", n, -1, 0, 0);
        if (_timingsafe_memcmp_chk(A, A, n, n, n) != 0) vio("timingsafe_memcmp", "wrong-result", "same-region", "identical pointers reported as different", n, -1, 0, 0);
        n_calls += 2; }
}

static void mode_taint(void) {
    size_t maxn = g_tier ? 64 : 24; char obs[240];
    if (!RUNNING_ON_VALGRIND) { fprintf(g_out, "{\"t\":\"harness_error\",\"why\":\"not running under valgrind\"}\n"); return; }
    unsigned char *A = malloc(96), *B = malloc(96);
    rng_t g = rng_from(g_seed, 19, 2);
    for (size_t n = 1; n <= maxn; n++) for (int cls = 0; cls < 6; cls++) {
        /* content classes: equal, differ first, differ middle, differ last, all 0x00 vs all 0xff, random */
        for (size_t i = 0; i < n; i++) { A[i] = (unsigned char)rnd(&g); B[i] = A[i]; }
        if (cls == 1) B[0] ^= 0x40; if (cls == 2) B[n / 2] ^= 1; if (cls == 3) B[n - 1] ^= 0x80;
        if (cls == 4) { memset(A, 0, n); memset(B, 0xff, n); }
        if (cls == 5) for (size_t i = 0; i < n; i++) B[i] = (unsigned char)rnd(&g);
        for (int fn = 0; fn < 3; fn++) {
            VALGRIND_MAKE_MEM_UNDEFINED(A, n); VALGRIND_MAKE_MEM_UNDEFINED(B, n);
            unsigned long e0 = VALGRIND_COUNT_ERRORS;
            volatile int r;
            if (fn == 0) r = _timingsafe_bcmp_chk(A, B, n, BOS_UNKNOWN, BOS_UNKNOWN);
            else if (fn == 1) r = _timingsafe_memcmp_chk(A, B, n, BOS_UNKNOWN, BOS_UNKNOWN);
            else r = naive_cmp(A, B, n);
            unsigned long e1 = VALGRIND_COUNT_ERRORS;
            VALGRIND_MAKE_MEM_DEFINED((void *)&r, sizeof r); VALGRIND_MAKE_MEM_DEFINED(A, n); VALGRIND_MAKE_MEM_DEFINED(B, n);
            if (fn == 2) { n_ctrl++; if (e1 > e0) n_ctrl_fired++; continue; }
            n_tainted++;
            {   char k[64]; snprintf(k, sizeof k, "t;%d;%zu;%d", fn, n, cls); distinct_add(hash_str(k)); }
            if (e1 > e0) {
                static const char *cn[] = {"equal", "differ-first", "differ-middle", "differ-last", "all00-vs-allff", "random"};
                snprintf(obs, sizeof obs, "n=%zu contents=%s: memcheck reported %lu use(s) of undefined (secret) data in a branch or address inside the call", n, cn[cls], e1 - e0);
                vio(fn == 0 ? "timingsafe_bcmp" : "timingsafe_memcmp", "secret-dependent-control-flow-or-address", n <= 8 ? "n<=8" : n <= 32 ? "n<=32" : "n>32", obs, n, cls, 0, 0);
            }
        }
    }
}

int main(int argc, char **argv) {
    g_out = stdout;
    for (int i = 1; i < argc; i++) {
        if (!strcmp(argv[i], "--prop")) g_prop = argv[++i];
        else if (!strcmp(argv[i], "--tier")) g_tier = !strcmp(argv[++i], "thorough");
        else if (!strcmp(argv[i], "--seed")) g_seed = strtoull(argv[++i], NULL, 10);
        else if (!strcmp(argv[i], "--worker")) ++i;
        else if (!strcmp(argv[i], "--cfg")) g_cfg = argv[++i];
        else if (!strcmp(argv[i], "--mode")) g_mode = argv[++i];
        else if (!strcmp(argv[i], "--verbose")) g_verbose = 1;
        else { fprintf(stderr, "unknown arg %s\n", argv[i]); return 2; }
    }
    if (!strcmp(g_mode, "taint")) mode_taint(); else mode_result();
    emit_counter(!strcmp(g_mode, "taint") ? "tainted_calls" : "calls", !strcmp(g_mode, "taint") ? n_tainted : n_calls);
    emit_counter("control_calls", n_ctrl); emit_counter("control_fired", n_ctrl_fired);
    distinct_emit();
    fprintf(g_out, "{\"t\":\"end\"}\n"); fflush(g_out);
    return 0;
}
