#!/bin/sh
# Build-independent setup: check the tools the checks rely on and warm the private library builds.
set -e
cd "$(dirname "$0")"
for t in gcc python3 ar valgrind; do command -v $t >/dev/null || { echo "missing tool: $t"; exit 2; }; done
python3 vlib/build.py plain noslack >/dev/null
echo setup ok
